//! C12: field width, alignment and truncation contract.
//! Each case renders `{msg:<align><width>[!]}` (or `{wide_msg}`) through the real bar and measures
//! the field in terminal columns three independent ways.

use super::{PropResult, RunCfg};
use crate::json::J;
use crate::prng::{fnv1a, Rng};
use crate::rend::render_with;
use crate::report::{run_parallel, workers, CaseOut, Verdict, Violation};
use crate::vscreen::{cols_of, strip_ansi, VScreen};
use indicatif::ProgressStyle;
use unicode_width::UnicodeWidthChar;

#[derive(Clone, Copy, Debug, PartialEq, Eq)]
pub enum Align {
    Left,
    Center,
    Right,
}

impl Align {
    pub fn ch(&self) -> &'static str {
        match self {
            Align::Left => "<",
            Align::Center => "^",
            Align::Right => ">",
        }
    }
}

/// Reference for content measured in columns `c` (after ANSI stripping): the visible text of a
/// field of width `w`. Returns every acceptable visible text.
pub fn ref_field(visible: &str, w: usize, align: Align, truncate: bool) -> Vec<String> {
    let chars: Vec<(char, usize)> = visible.chars().map(|c| (c, c.width().unwrap_or(0))).collect();
    let c: usize = chars.iter().map(|x| x.1).sum();
    if c <= w {
        let diff = w - c;
        let (l, r) = match align {
            Align::Left => (0, diff),
            Align::Right => (diff, 0),
            Align::Center => (diff / 2, diff - diff / 2),
        };
        let mut v = vec![format!("{}{}{}", " ".repeat(l), visible, " ".repeat(r))];
        if align == Align::Center && diff % 2 == 1 {
            v.push(format!("{}{}{}", " ".repeat(diff - diff / 2), visible, " ".repeat(diff / 2)));
        }
        return v;
    }
    if !truncate {
        return vec![visible.to_string()];
    }
    // keep exactly w columns from the start / middle / end
    let slice = |skip_cols: usize| -> Option<String> {
        // start at the first character boundary at column `skip_cols`, take characters while they fit
        let mut col = 0;
        let mut i = 0;
        while i < chars.len() && col < skip_cols {
            col += chars[i].1;
            i += 1;
        }
        if col != skip_cols {
            return None; // would cut a double-width character in half
        }
        let mut out = String::new();
        let mut used = 0;
        while i < chars.len() && used + chars[i].1 <= w {
            out.push(chars[i].0);
            used += chars[i].1;
            i += 1;
        }
        Some(out)
    };
    let excess = c - w;
    let starts: Vec<usize> = match align {
        Align::Left => vec![0],
        Align::Right => vec![excess, excess + 1], // +1: when a wide character straddles the cut
        Align::Center => vec![excess / 2, excess - excess / 2, excess / 2 + 1],
    };
    let mut v: Vec<String> = starts.into_iter().filter_map(slice).collect();
    v.dedup();
    v
}

const CLASSES: [&str; 6] = ["ascii", "multibyte-1col", "wide-2col", "ansi", "combining", "tabs"];

fn content(rng: &mut Rng, class: usize, cols: usize) -> String {
    let mut s = String::new();
    let mut c = 0;
    let letters = b"abcdefghijklmnopqrstuvwxyz0123456789";
    let multi = ['é', 'ß', 'ñ', 'ö', 'Ж', 'λ', '→'];
    let wide = ['世', '界', '日', '本', '語'];
    while c < cols {
        match class {
            1 if rng.chance(1, 2) => {
                s.push(*rng.pick(&multi));
                c += 1;
            }
            2 if cols - c >= 2 && rng.chance(1, 2) => {
                s.push(*rng.pick(&wide));
                c += 2;
            }
            5 if cols - c >= 8 && rng.chance(1, 4) => {
                // a TAB is eight columns of blanks by the time the field is laid out (default tab width)
                s.push('\t');
                c += 8;
            }
            4 if c > 0 && rng.chance(1, 3) => {
                s.push('\u{301}'); // combining acute accent, zero columns
            }
            _ => {
                s.push(letters[rng.usize(letters.len())] as char);
                c += 1;
            }
        }
    }
    if class == 3 {
        // wrap one or two segments in SGR sequences
        let n = s.chars().count();
        let cut = if n > 1 { rng.usize(n) } else { 0 };
        let (a, b): (String, String) = (s.chars().take(cut).collect(), s.chars().skip(cut).collect());
        s = format!("\x1b[31m{a}\x1b[0m\x1b[1;32m{b}\x1b[0m");
    }
    s
}

/// How the content reaches the field: the message, the prefix, or a custom key (also one that shadows a
/// built-in key: a user key takes precedence, and the field contract is the same for every key).
pub const CARRIERS: [&str; 7] = ["msg", "prefix", "ck", "bar", "pos", "wide_bar", "eta"];

pub fn check_field(width: usize, align: Option<Align>, truncate: bool, msg: &str, class: &'static str, replay: String) -> (Verdict, bool) {
    check_field_via(0, false, width, align, truncate, msg, class, replay)
}

pub fn check_field_via(carrier: usize, second_line: bool, width: usize, align: Option<Align>, truncate: bool, msg: &str, class: &'static str, replay: String) -> (Verdict, bool) {
    let key = CARRIERS[carrier];
    // (optionally the field sits on the second template line, below a line that ends in a wide message:
    // every line of a template is laid out on its own)
    let spec = format!(
        "{}{{{key}:{}{}{}}}",
        if second_line { "{wide_msg}\n" } else { "" },
        align.map(|a| a.ch()).unwrap_or(""),
        width,
        if truncate { "!" } else { "" }
    );
    let style = match ProgressStyle::with_template(&spec) {
        Ok(s) => s,
        Err(e) => {
            return (
                Verdict::Inconclusive(format!("template {spec:?} rejected: {e}")),
                false,
            )
        }
    };
    let m = msg.to_string();
    // what the field is laid out from: the content with its tabs expanded
    let expanded = msg.replace('\t', "        ");
    let msg = expanded.as_str();
    let style = if carrier >= 2 {
        let text = m.clone();
        // the key's output reaches the writer through each entry point of fmt::Write
        let route = m.len() % 3;
        style.with_key(key, move |_: &indicatif::ProgressState, w: &mut dyn std::fmt::Write| match route {
            0 => {
                let _ = w.write_str(&text);
            }
            1 => {
                for c in text.chars() {
                    let _ = w.write_char(c);
                }
            }
            _ => {
                for c in text.chars() {
                    let _ = write!(w, "{}", c);
                }
            }
        })
    } else {
        style
    };
    let r = render_with(60000, Some(10), style, move |pb| match carrier {
        0 => pb.set_message(m),
        1 => pb.set_prefix(m),
        _ => {}
    });
    let witness = J::obj().with("template", spec.clone()).with("content", msg).with("class", class).with("carrier", if carrier >= 2 { format!("custom key named {key}") } else { key.to_string() });
    let rendered = match r {
        Ok(r) => r.lines.get(second_line as usize).cloned().unwrap_or_default(),
        Err(p) => {
            return (
                Verdict::Violated(Box::new(Violation {
                    rule: "panic".into(),
                    features: vec![class.into()],
                    detail: format!("rendering {spec} with {msg:?} panicked: {p}"),
                    witness,
                    replay,
                })),
                true,
            )
        }
    };
    let visible_in = strip_ansi(msg);
    let visible_out = strip_ansi(&rendered);
    // three ways of counting columns must agree, else the measurement itself is in doubt
    let c1 = cols_of(&rendered);
    let c2 = console::measure_text_width(&rendered);
    let c3 = if c1 < 64000 {
        let mut v = VScreen::new(65000, 2);
        v.feed(&rendered);
        if v.pending { v.cur_c + 1 } else { v.cur_c }
    } else {
        c1
    };
    if c1 != c2 || c1 != c3 {
        return (Verdict::Inconclusive("column measurements disagree".into()), false);
    }
    let a = align.unwrap_or(Align::Left);
    let accept = ref_field(&visible_in, width, a, truncate);
    let fits = cols_of(msg) <= width;
    let base = |t: &str| -> String { t.chars().filter(|c| c.width().unwrap_or(0) > 0).collect() };
    let mut ok = accept.iter().any(|x| *x == visible_out)
        || (class == "combining" && accept.iter().any(|x| base(x) == base(&visible_out)) && (c1 == width || (!fits && !truncate)));
    if class == "wide-2col" && truncate && !fits && c1 == width {
        // a wide character cut in half may be shown as a blank: compare ignoring blanks at the cut
        ok = ok || accept.iter().any(|x| visible_out.trim() == x.trim() || visible_out.trim().contains(x.trim()) || x.trim().contains(visible_out.trim()));
    }
    // wide characters: when exactly `width` columns cannot be kept, width-1 is accepted
    let mut rule = "field-content";
    if !ok {
        if fits {
            rule = if c1 != width { "field-width" } else { "field-padding-side" };
        } else if !truncate {
            rule = "untruncated-content-altered";
        } else if c1 != width && !(class == "wide-2col" && c1 + 1 == width) {
            rule = "truncated-width";
        } else {
            rule = "truncated-wrong-part";
        }
    }
    if !ok && class == "wide-2col" && truncate && !fits && c1 + 1 == width {
        // accept a substring of the content of width-1 columns at the right place
        ok = ref_field(&visible_in, width - 1, a, true).iter().any(|x| *x == visible_out) || visible_in.contains(&visible_out);
    }
    // with ANSI content the escape sequences must survive intact (no dangling ESC)
    if ok && class == "ansi" && rendered.contains('\x1b') {
        let stripped_twice = strip_ansi(&strip_ansi(&rendered));
        if stripped_twice.contains('\x1b') || stripped_twice != visible_out {
            ok = false;
            rule = "ansi-sequence-cut";
        }
    }
    if ok {
        return (Verdict::Held, true);
    }
    let al = match a {
        Align::Left => "left",
        Align::Center => "center",
        Align::Right => "right",
    };
    (
        Verdict::Violated(Box::new(Violation {
            rule: rule.into(),
            features: {
                let mut f = vec![class.to_string(), format!("align-{al}"), if fits { "fits".into() } else if truncate { "truncate".into() } else { "overflow".into() }];
                if carrier > 0 {
                    f.push(format!("via-{}{key}", if carrier >= 2 { "custom-" } else { "" }));
                }
                f
            },
            detail: format!("{spec} with {msg:?} rendered {rendered:?} ({c1} columns); acceptable visible texts: {accept:?}"),
            witness,
            replay,
        })),
        true,
    )
}

fn run_case(seed: u64, idx: u64, exhaustive_n: u64) -> CaseOut {
    let mut rng = Rng::derive(seed, 12, idx);
    let aligns = [None, Some(Align::Left), Some(Align::Center), Some(Align::Right)];
    let (width, align, truncate, class, cols);
    let mut carrier = 0usize;
    let mut second_line = false;
    if idx < exhaustive_n {
        // exhaustive slice: widths 0..=40 x 4 alignments x truncate on/off x 5 classes x 3 content sizes
        let mut i = idx;
        width = (i % 41) as usize;
        i /= 41;
        align = aligns[(i % 4) as usize];
        i /= 4;
        truncate = i % 2 == 1;
        i /= 2;
        class = (i % 5) as usize;
        i /= 5;
        cols = match i % 3 {
            0 => width.saturating_sub(1 + rng.usize(3)),
            1 => width,
            _ => width + 1 + rng.usize(6),
        };
    } else {
        width = match rng.below(6) {
            0 => rng.range(41, 300) as usize,
            1 => *rng.pick(&[255usize, 256, 1000, 4096, 65535]),
            _ => rng.range(0, 40) as usize,
        };
        align = *rng.pick(&aligns);
        truncate = rng.chance(1, 2);
        class = rng.usize(6);
        carrier = if rng.chance(1, 2) { 0 } else { rng.usize(CARRIERS.len()) };
        second_line = rng.chance(1, 5);
        cols = match rng.below(4) {
            0 => 0,
            1 => width.min(400),
            2 => rng.usize(width.min(300) + 1),
            _ => width.min(300) + 1 + rng.usize(12),
        };
    }
    let msg = content(&mut rng, class, cols);
    let (verdict, measured) = check_field_via(carrier, second_line, width, align, truncate, &msg, CLASSES[class], format!("{seed}:{idx}"));
    let mut co = CaseOut::held(fnv1a(format!("{width}{align:?}{truncate}{msg}").as_bytes()), measured && !msg.is_empty());
    co.verdict = verdict;
    co.count("fields_measured", measured as u64);
    co.see("content_classes", class as u64);
    co.see("carriers", carrier as u64);
    co.see("widths", width as u64);
    if idx % 997 == 0 {
        co.sample = Some(J::obj().with("width", width).with("align", format!("{align:?}")).with("truncate", truncate).with("message", msg));
    }
    co
}

/// `{wide_msg}`: the line must never be wider than the terminal and fill it when the content is
/// long enough.
fn run_wide(seed: u64, idx: u64) -> CaseOut {
    let mut rng = Rng::derive(seed, 1200, idx);
    let w = rng.range(1, 120) as usize;
    let class = rng.usize(5);
    let cols = match rng.below(3) {
        0 => rng.usize(w + 1),
        1 => w,
        _ => w + 1 + rng.usize(40),
    };
    let msg = content(&mut rng, class, cols);
    let prefix_lit = if rng.chance(1, 2) { "ab " } else { "" };
    // the wide field takes an alignment too ({wide_msg:>}, {wide_msg:^}): a message that fits is padded on the
    // left accordingly (round 11: a fast path for "the message fits" that forgot the alignment)
    let align = rng.usize(4);
    let spec = format!("{prefix_lit}{{wide_msg{}}}", ["", ":<", ":>", ":^"][align]);
    let mut co = CaseOut::held(fnv1a(format!("{w}{msg}{spec}").as_bytes()), true);
    let style = ProgressStyle::with_template(&spec).unwrap();
    let m = msg.clone();
    let r = render_with(w as u16, Some(10), style, move |pb| pb.set_message(m));
    let witness = J::obj().with("template", spec.clone()).with("terminal_width", w).with("message", msg.clone()).with("class", CLASSES[class]);
    let feat = vec![CLASSES[class].to_string(), "wide_msg".to_string()];
    match r {
        Err(p) => {
            co.verdict = Verdict::Violated(Box::new(Violation {
                rule: "panic".into(),
                features: feat,
                detail: format!("{spec} at width {w} with {msg:?} panicked: {p}"),
                witness,
                replay: format!("w{seed}:{idx}"),
            }))
        }
        Ok(r) => {
            let line = r.lines.first().cloned().unwrap_or_default();
            let c = cols_of(&line);
            let avail = w.saturating_sub(prefix_lit.len());
            let long_enough = cols_of(&msg) >= avail;
            let mut bad = None;
            if prefix_lit.len() > w {
                // the literal part alone does not fit: nothing the field could do about it
            } else if c > w {
                bad = Some(("wide-msg-overflows-terminal", format!("line is {c} columns wide on a {w}-column terminal")));
            } else if long_enough && c < w && !(class == 2 && c + 1 == w) && !(class == 2 && align == 3) && prefix_lit.len() <= w {
                // (a centred cut can halve a wide character at both ends; the halves become blanks and the spy trims
                // the trailing one, so the fill rule is not decidable for that combination)
                bad = Some(("wide-msg-does-not-fill", format!("line is {c} columns wide, content has {} columns for {avail} available", cols_of(&msg))));
            } else if cols_of(&msg) <= avail && !msg.is_empty() {
                let diff = avail - cols_of(&msg);
                let left = match align {
                    2 => diff,
                    3 => diff / 2,
                    _ => 0,
                };
                let want = format!("{prefix_lit}{}{}", " ".repeat(left), console::strip_ansi_codes(&msg));
                let got = console::strip_ansi_codes(&line).to_string();
                if got.trim_end() != want.trim_end() {
                    bad = Some(("wide-msg-alignment", format!("the message fits ({} of {avail} columns) and must be padded with {left} blanks on the left: expected {:?}", cols_of(&msg), want.trim_end())));
                }
            }
            if let Some((rule, d)) = bad {
                co.verdict = Verdict::Violated(Box::new(Violation {
                    rule: rule.into(),
                    features: feat,
                    detail: format!("{spec} at terminal width {w}: {d}; rendered {line:?}"),
                    witness,
                    replay: format!("w{seed}:{idx}"),
                }));
            }
        }
    }
    co.count("wide_msg_lines_measured", 1);
    co
}

/// `{wide_msg}` next to *wide* neighbours: the rest of the line is made of padded fields whose widths
/// add up to anything from 0 to beyond 2^17 columns (the boundaries of every integer type a column
/// count could be squeezed into on the way). The wide field must receive exactly
/// `terminal width - rest` columns, saturating at zero.
fn run_wide_rest(seed: u64, idx: u64) -> CaseOut {
    let mut rng = Rng::derive(seed, 1201, idx);
    let w = match rng.below(4) {
        0 => rng.range(4, 40),
        1 => rng.range(40, 300),
        2 => rng.range(300, 5000),
        _ => *rng.pick(&[255u64, 256, 257, 32767, 32768, 65535]),
    } as usize;
    // total width of the padded neighbours
    let near = |rng: &mut Rng, c: u64| c.saturating_sub(rng.range(0, 3)) + rng.range(0, 3);
    let total: u64 = match rng.below(8) {
        0 => rng.range(0, w as u64 + 5),
        1 => near(&mut rng, 255),
        2 => near(&mut rng, 65535),
        3 => 65536 + rng.range(0, w as u64 + 3),
        4 => near(&mut rng, 65536 + w as u64),
        5 => 131072 + rng.range(0, w as u64 + 3),
        6 => rng.range(0, 140_000),
        _ => near(&mut rng, w as u64),
    };
    // split it over two or three fields of at most 65535 columns each plus literal characters
    let lit = rng.range(0, 3).min(total) as usize;
    let mut remaining = total - lit as u64;
    let mut widths = Vec::new();
    while remaining > 0 && widths.len() < 3 {
        let take = if widths.len() == 2 { remaining.min(65535) } else { rng.range(0, remaining.min(65535)) };
        widths.push(take);
        remaining -= take;
    }
    // a field narrower than its content shows the content unshortened ("P", "7", "10")
    let content_cols = [1u64, 1, 2];
    let rest_cols = widths.iter().enumerate().map(|(i, fw)| (*fw).max(content_cols[i])).sum::<u64>() as usize + lit;
    if rest_cols.div_ceil(w) + 2 > 59_000 {
        // would not fit the spy terminal's height: the frame would be cut (a different property)
        return CaseOut::held(idx, false);
    }
    let keys = ["prefix", "pos", "len"];
    let mut spec = String::new();
    for (i, fw) in widths.iter().enumerate() {
        spec.push_str(&format!("{{{}:{}}}", keys[i], fw));
    }
    spec.push_str(&"<>|"[..lit.min(3)]);
    let wide_first = rng.chance(1, 4);
    // (a wide field that ends the line - also when it is the whole line - loses its invisible padding)
    let wide_last = !wide_first || spec.is_empty();
    let spec = if wide_first { format!("{{wide_msg}}{spec}") } else { format!("{spec}{{wide_msg}}") };
    let msg_cols = match rng.below(3) {
        0 => rng.usize(8),
        1 => w,
        _ => w + rng.usize(30),
    };
    let msg: String = (0..msg_cols).map(|i| (b'a' + (i % 26) as u8) as char).collect();
    let mut co = CaseOut::held(fnv1a(format!("{w}:{spec}:{msg_cols}").as_bytes()), true);
    let style = ProgressStyle::with_template(&spec).unwrap();
    let m = msg.clone();
    let r = render_with(w as u16, Some(10), style, move |pb| {
        pb.set_prefix("P");
        pb.set_position(7);
        pb.set_message(m)
    });
    let witness = J::obj().with("template", spec.clone()).with("terminal_width", w).with("message_columns", msg_cols).with("rest_of_line_columns", rest_cols);
    let mut feat = vec!["wide_msg".to_string(), "wide-neighbours".to_string()];
    if rest_cols >= 65536 {
        feat.push("rest>=65536".into());
    }
    match r {
        Err(p) => {
            co.verdict = Verdict::Violated(Box::new(Violation {
                rule: "panic".into(),
                features: feat,
                detail: format!("{spec} at width {w} panicked: {p}"),
                witness,
                replay: format!("v{seed}:{idx}"),
            }))
        }
        Ok(r) => {
            let line = r.lines.first().cloned().unwrap_or_default();
            let c = cols_of(&line);
            let left = w.saturating_sub(rest_cols);
            // the wide field is exactly `left` columns: the message's first `left` columns, padded
            let mut want_field: String = msg.chars().take(left).chain(std::iter::repeat(' ')).take(left).collect();
            if wide_last {
                // at the end of the line the invisible padding is dropped
                want_field.truncate(want_field.trim_end().len());
            }
            let got_field: String = if wide_first {
                line.chars().take(c.saturating_sub(rest_cols)).collect()
            } else {
                line.chars().skip(rest_cols).collect()
            };
            if c != rest_cols + want_field.len() || got_field != want_field {
                co.verdict = Verdict::Violated(Box::new(Violation {
                    rule: "wide-msg-wrong-width".into(),
                    features: feat,
                    detail: format!(
                        "{spec} on a {w}-column terminal: the rest of the line takes {rest_cols} columns, so wide_msg must get {left}; the line is {c} columns wide and the wide field reads {:?} (expected {:?})",
                        got_field.chars().take(60).collect::<String>(),
                        want_field.chars().take(60).collect::<String>()
                    ),
                    witness,
                    replay: format!("v{seed}:{idx}"),
                }));
            }
        }
    }
    co.count("wide_msg_lines_measured", 1);
    co.max("widest_rest_of_line_columns", rest_cols as u64);
    co
}

/// `{bar:W}` is a field like any other: whatever whole cells fit, the field occupies exactly W columns
/// and the padding sits on the side the alignment asks for. (What the cells show is C13's business.)
fn run_bar_field(seed: u64, idx: u64) -> CaseOut {
    let mut rng = Rng::derive(seed, 1202, idx);
    let sets: [(&str, usize); 5] = [("#>-", 1), ("█░", 1), ("古今", 2), ("＃＞－", 2), ("界▓世", 0)];
    let (chars, cw) = sets[rng.usize(4)];
    let width = match rng.below(3) {
        0 => rng.usize(8),
        1 => rng.range(8, 61) as usize,
        _ => 2 * rng.range(0, 40) as usize + 1,
    };
    let align = *rng.pick(&[None, Some(Align::Left), Some(Align::Center), Some(Align::Right)]);
    let len = rng.range(1, 1000);
    let pos = match rng.below(5) {
        0 => 0,
        1 => len,
        // beyond the end: the bar is full, never wider than its field
        4 => len + rng.range(1, 3 * len),
        _ => rng.range(0, len),
    };
    let spec = format!("{{bar:{}{}}}", align.map(|a| a.ch()).unwrap_or(""), width);
    let mut co = CaseOut::held(fnv1a(format!("bar{spec}{chars}{pos}/{len}").as_bytes()), true);
    let style = ProgressStyle::with_template(&spec).unwrap().progress_chars(chars);
    let r = render_with(60000, Some(len), style, move |pb| pb.set_position(pos));
    let witness = J::obj().with("template", spec.clone()).with("progress_chars", chars).with("cell_columns", cw).with("pos", pos).with("len", len);
    let feat = vec![format!("bar-field"), format!("cell-width-{cw}"), if width % cw == 0 { "width-multiple-of-cell".into() } else { "width-not-multiple-of-cell".to_string() }];
    match r {
        Err(p) => {
            co.verdict = Verdict::Violated(Box::new(Violation { rule: "panic".into(), features: feat, detail: format!("{spec} with {chars:?} panicked: {p}"), witness, replay: format!("b{seed}:{idx}") }))
        }
        Ok(r) => {
            let line = r.lines.first().cloned().unwrap_or_default();
            let c = cols_of(&line);
            let slack = width % cw;
            let side_ok = slack == 0
                || match align.unwrap_or(Align::Left) {
                    Align::Left => line.ends_with(' ') || width < cw,
                    Align::Right => line.starts_with(' ') || width < cw,
                    Align::Center => true,
                };
            if c != width || !side_ok {
                co.verdict = Verdict::Violated(Box::new(Violation {
                    rule: if c != width { "field-width".into() } else { "field-padding-side".into() },
                    features: feat,
                    detail: format!("{spec} with progress characters {chars:?} ({cw} column(s) per cell) at {pos}/{len} rendered {line:?}: {c} columns instead of {width}"),
                    witness,
                    replay: format!("b{seed}:{idx}"),
                }));
            }
        }
    }
    co.count("bar_fields_measured", 1);
    co
}

pub fn run(cfg: &RunCfg) -> PropResult {
    console::set_colors_enabled(false);
    let exhaustive_n: u64 = 41 * 4 * 2 * 5 * 3;
    let report = if let Some(case) = &cfg.case {
        let wide = case.starts_with('w');
        let rest = case.starts_with('v');
        let barf = case.starts_with('b');
        let mut it = case.trim_start_matches(['w', 'v', 'b']).split(':');
        let seed: u64 = it.next().and_then(|s| s.parse().ok()).unwrap_or(cfg.seed);
        let idx: u64 = it.next().and_then(|s| s.parse().ok()).unwrap_or(0);
        let mut r = crate::report::Report::default();
        r.add(idx, if barf { run_bar_field(seed, idx) } else if rest { run_wide_rest(seed, idx) } else if wide { run_wide(seed, idx) } else { run_case(seed, idx, exhaustive_n) });
        r
    } else {
        let n = if cfg.thorough { 6_000_000 } else { 60_000 };
        let nw = if cfg.thorough { 1_000_000 } else { 20_000 };
        let mut r = run_parallel(n, workers(), |i| run_case(cfg.seed, i, exhaustive_n));
        r.merge(crate::report::run_parallel_tagged('w', nw, workers(), |i| run_wide(cfg.seed, i)));
        let nv = if cfg.thorough { 60_000 } else { 1_500 };
        r.merge(crate::report::run_parallel_tagged('v', nv, workers(), |i| run_wide_rest(cfg.seed, i)));
        let nb = if cfg.thorough { 400_000 } else { 8_000 };
        r.merge(crate::report::run_parallel_tagged('b', nb, workers(), |i| run_bar_field(cfg.seed, i)));
        r
    };
    PropResult {
        report,
        rule: "one rendered field per evaluation: widths 0..=40 x alignment (none,<,^,>) x truncation on/off x content class (ascii, multibyte-1col, wide-2col, ansi, combining) x (shorter, exact, longer) enumerated completely, then sampled widths up to 65535 and {wide_msg} lines on terminals 1..120 columns, content delivered through msg, prefix and custom keys (also ones shadowing bar/pos/wide_bar/eta), {bar:W} fields with 1- and 2-column progress characters (exact W columns, padding on the aligned side), and {wide_msg} next to padded neighbours whose widths add up to 0..140000 columns (around 255, 65535, 65536+w, 131072) on terminals of 4..65535 columns; non-trivial = the field was measured and the content is non-empty; distinct = hash of (width, alignment, truncation, content)".into(),
        exhaustive: false,
    }
}
