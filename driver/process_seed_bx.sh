#!/bin/bash
# usage: process_seed_bx.sh <scratch-dir> <round-worktree-prefix> <suffix> <ID> [features]
# Like process_seed.sh, but the quick check runs in a persistent scratch environment (try_scratch.sh with BX=<scratch-dir>)
# instead of /repo, so that several seeds can be processed at the same time.
bx=$1; pre=$2; suf=$3; id=$4; feats=${5:-}
cd /verif
echo "=== $id-$suf"
driver/verify_seed.sh ${pre}$id $id-$suf $feats 2>&1 | grep -E "demo rc|PATCH|^test result: (ok. 4[0-9]|FAILED)" | head -4
BX=$bx driver/try_scratch.sh seeded/$id-$suf/patch.diff $id 2>&1 | head -5
