#!/bin/sh
# Offline setup: pre-build the harness (both profiles) against /repo's current tree.
set -e
cd "$(dirname "$0")"
export CARGO_NET_OFFLINE=true CARGO_TARGET_DIR=/verif/target
cargo build --offline --release --manifest-path harness/Cargo.toml
cargo build --offline --manifest-path harness/Cargo.toml
cargo build --offline --release --manifest-path harness-adapt/Cargo.toml
