//! C15: human-readable formatters are total and faithful.
//! Oracle: independent reference renderings (integer arithmetic; std's `{:.N}` for the decimal
//! rounding of floats) compared with the crate's Display impls, every call under catch_unwind.

use super::{PropResult, RunCfg};
use crate::json::J;
use crate::prng::{fnv1a, Rng};
use crate::report::{run_parallel, workers, CaseOut, Verdict, Violation};
use indicatif::{
    BinaryBytes, DecimalBytes, FormattedDuration, HumanBytes, HumanCount, HumanDuration, HumanFloatCount,
};
use std::panic::{catch_unwind, AssertUnwindSafe};
use std::time::Duration;

fn group(digits: &str) -> String {
    let mut out = String::new();
    let n = digits.len();
    for (i, c) in digits.chars().enumerate() {
        out.push(c);
        let rest = n - i - 1;
        if rest > 0 && rest % 3 == 0 {
            out.push(',');
        }
    }
    out
}

/// Reference for HumanFloatCount: std's fixed-precision rendering, digit grouping on the integer
/// digits only, trailing zeros of the fraction trimmed.
pub fn ref_float(x: f64, precision: usize) -> String {
    let s = format!("{x:.precision$}");
    let (sign, body) = match s.strip_prefix('-') {
        Some(r) => ("-", r),
        None => ("", s.as_str()),
    };
    if !body.chars().next().map(|c| c.is_ascii_digit()).unwrap_or(false) {
        return s; // NaN, inf
    }
    let (int, frac) = match body.split_once('.') {
        Some((i, f)) => (i, f.trim_end_matches('0')),
        None => (body, ""),
    };
    let mut out = format!("{sign}{}", group(int));
    if !frac.is_empty() {
        out.push('.');
        out.push_str(frac);
    }
    out
}

fn float_class(x: f64, precision: Option<usize>) -> &'static str {
    if x.is_nan() {
        "nan"
    } else if x.is_infinite() {
        if x < 0.0 {
            "negative-infinity"
        } else {
            "infinity"
        }
    } else if x.is_sign_negative() {
        "negative"
    } else if precision == Some(0) {
        "precision-0"
    } else {
        "finite-non-negative"
    }
}

const BIN_UNITS: [&str; 9] = ["", "Ki", "Mi", "Gi", "Ti", "Pi", "Ei", "Zi", "Yi"];
const DEC_UNITS: [&str; 9] = ["", "k", "M", "G", "T", "P", "E", "Z", "Y"];

/// Checks "value unit" output for a byte formatter. Returns an error description on mismatch.
fn check_bytes(out: &str, v: u64, base: u128, units: &[&str; 9]) -> Result<(), String> {
    let (num, unit) = out.split_once(' ').ok_or_else(|| format!("no space in {out:?}"))?;
    let prefix = unit.strip_suffix('B').ok_or_else(|| format!("unit {unit:?} does not end in B"))?;
    let k = units.iter().position(|u| *u == prefix).ok_or_else(|| format!("unknown prefix {prefix:?}"))?;
    let unit_val: u128 = base.pow(k as u32);
    let v128 = v as u128;
    // largest unit with unit <= value (the f64 image of the value is accepted as well: above
    // 2^53 the conversion may round the value up to the next unit)
    let vf = v as f64;
    let fits_exact = unit_val <= v128.max(1) && (v128 < unit_val * base || k == 8);
    let fits_f64 = (unit_val as f64) <= vf.max(1.0) && (vf < (unit_val * base) as f64);
    if k == 0 {
        if v128 >= base && !(vf < base as f64) {
            return Err(format!("{v} printed in plain bytes although it reaches the first prefix"));
        }
        if num != v.to_string() {
            return Err(format!("plain byte count {num:?} != {v}"));
        }
        return Ok(());
    }
    if !(fits_exact || fits_f64) {
        return Err(format!("unit {unit} is not the largest unit <= {v}"));
    }
    let (_i, f) = num.split_once('.').ok_or_else(|| format!("{num:?} has no decimals"))?;
    if f.len() != 2 {
        return Err(format!("{num:?} does not have two decimals"));
    }
    let parsed: f64 = num.parse().map_err(|_| format!("{num:?} is not a number"))?;
    let exact = v as f64 / unit_val as f64;
    let tol = 0.005 + exact * 4.0 * f64::EPSILON + 1e-9;
    if (parsed - exact).abs() > tol {
        return Err(format!("{num} {unit} is not the two-decimal rounding of {v}/{unit_val} = {exact}"));
    }
    Ok(())
}

fn ref_formatted_duration(d: Duration) -> String {
    let t = d.as_secs();
    let (s, m, h, days) = (t % 60, (t / 60) % 60, (t / 3600) % 24, t / 86400);
    if days > 0 {
        format!("{days}d {h:02}:{m:02}:{s:02}")
    } else {
        format!("{h:02}:{m:02}:{s:02}")
    }
}

const NS: u128 = 1_000_000_000;
const UNITS: [(u128, &str, &str); 6] = [
    (365 * 24 * 3600 * NS, "year", "y"),
    (7 * 24 * 3600 * NS, "week", "w"),
    (24 * 3600 * NS, "day", "d"),
    (3600 * NS, "hour", "h"),
    (60 * NS, "minute", "m"),
    (NS, "second", "s"),
];

/// Reference for HumanDuration following its stated rule. Returns (unit index, acceptable counts).
fn ref_human_duration(d: Duration) -> (usize, Vec<u128>) {
    let ns = d.as_nanos();
    let mut idx = UNITS.len() - 1;
    for i in 0..UNITS.len() - 1 {
        let cur = UNITS[i].0;
        let next = UNITS[i + 1].0;
        // switch to the smaller unit just below 1.5 units (minus half of the smaller unit)
        if ns + next / 2 >= cur + cur / 2 {
            idx = i;
            break;
        }
    }
    let unit = UNITS[idx].0;
    let q = ns / unit;
    let r = ns % unit;
    let mut counts = Vec::new();
    // nearest count; a remainder within float noise of one half may go either way
    let half = unit / 2;
    let noise = (unit / 1_000_000_000_000).max(1) + ns / (1u128 << 50);
    if r + noise < half {
        counts.push(q);
    } else if r > half + noise {
        counts.push(q + 1);
    } else {
        counts.push(q);
        counts.push(q + 1);
    }
    if idx < UNITS.len() - 1 {
        for c in counts.iter_mut() {
            *c = (*c).max(2);
        }
    }
    counts.dedup();
    (idx, counts)
}

fn human_duration_strings(idx: usize, count: u128) -> (String, String) {
    let (_, name, alt) = UNITS[idx];
    let plain = if count == 1 { format!("{count} {name}") } else { format!("{count} {name}s") };
    (plain, format!("{count}{alt}"))
}

fn biased_f64(rng: &mut Rng) -> f64 {
    match rng.below(14) {
        0 => 0.0,
        1 => -0.0,
        2 => f64::NAN,
        3 => f64::INFINITY,
        4 => f64::NEG_INFINITY,
        5 => f64::from_bits(rng.range(1, 1 << 20)), // subnormal
        6 => {
            let p = 10f64.powi(rng.range(0, 22) as i32);
            let x = p * [1.0, 0.5, 1.5, 2.5, 0.999999, 1.000001][rng.usize(6)];
            if rng.chance(1, 3) { -x } else { x }
        }
        7 => f64::from_bits(rng.next_u64()),
        8 => (rng.range(0, 2_000_000) as f64) + 0.5,
        9 => -(rng.range(0, 2_000_000_000) as f64) - rng.f64(),
        10 => rng.range(0, 1 << 53) as f64,
        11 => rng.f64() * 1e6,
        12 => {
            // halves at the requested precision
            let k = rng.range(0, 6) as i32;
            (rng.range(0, 100_000) as f64 + 0.5) / 10f64.powi(k)
        }
        _ => rng.f64() * 10f64.powi(rng.range(0, 300) as i32 - 20),
    }
}

fn biased_u64_bytes(rng: &mut Rng) -> u64 {
    match rng.below(8) {
        0 => {
            let k = rng.range(0, 6) as u32;
            (1024u64.pow(k)).wrapping_add(rng.range(0, 4)).wrapping_sub(2)
        }
        1 => {
            let k = rng.range(0, 6) as u32;
            (1000u64.pow(k)).wrapping_add(rng.range(0, 4)).wrapping_sub(2)
        }
        2 => {
            let k = rng.range(1, 6) as u32;
            // just below a unit boundary at two-decimal rounding
            1024u64.pow(k).wrapping_mul(rng.range(1, 1023)).wrapping_add(rng.range(0, 1024u64.pow(k) - 1))
        }
        _ => rng.u64_biased(),
    }
}

fn biased_duration(rng: &mut Rng) -> Duration {
    match rng.below(8) {
        0 => Duration::ZERO,
        1 => Duration::MAX,
        2 => Duration::new(rng.u64_biased(), rng.below(1_000_000_000) as u32),
        3 => {
            // around n + 1/2 units
            let (u, _, _) = UNITS[rng.usize(6)];
            let n = rng.range(1, 400) as u128;
            let ns = n * u + u / 2 + rng.range(0, 2_000_000) as u128 - 1_000_000;
            Duration::new((ns / NS) as u64, (ns % NS) as u32)
        }
        _ => Duration::new(rng.below(400 * 86400 * 30), rng.below(1_000_000_000) as u32),
    }
}

/// All unit boundaries and 1.5-unit switch points ± {0, 1 ns, 1 ms} (the exhaustive slice).
pub fn boundary_durations() -> Vec<Duration> {
    let mut v = Vec::new();
    let mut push = |ns: i128| {
        if ns >= 0 {
            v.push(Duration::new((ns as u128 / NS) as u64, (ns as u128 % NS) as u32));
        }
    };
    for i in 0..UNITS.len() {
        let u = UNITS[i].0 as i128;
        let next = if i + 1 < UNITS.len() { UNITS[i + 1].0 as i128 } else { 0 };
        let mut points = vec![u, u + u / 2, u + u / 2 - next / 2, 2 * u, 2 * u + u / 2, u / 2];
        for n in 2..=60 {
            points.push(n * u);
            points.push(n * u + u / 2);
        }
        for p in points {
            for d in [-1_000_000i128, -1, 0, 1, 1_000_000] {
                push(p + d);
            }
        }
    }
    v
}

fn violation(rule: &str, feature: &str, detail: String, witness: J, replay: String) -> Verdict {
    Verdict::Violated(Box::new(Violation {
        rule: rule.to_string(),
        features: vec![feature.to_string()],
        detail,
        witness,
        replay,
    }))
}

const BATCH: u64 = 500;

fn run_batch(seed: u64, idx: u64, boundaries: &[Duration]) -> CaseOut {
    let mut rng = Rng::derive(seed, 15, idx);
    let mut co = CaseOut::held(fnv1a(&idx.to_le_bytes()) ^ seed, true);
    let replay = format!("{seed}:{idx}");
    let mut checked = 0u64;
    macro_rules! fail {
        ($rule:expr, $feat:expr, $detail:expr, $w:expr) => {{
            co.verdict = violation($rule, $feat, $detail, $w, replay.clone());
            co.count("values_checked", checked);
            return co;
        }};
    }
    for j in 0..BATCH {
        // ---- u64 --------------------------------------------------------------------------------
        let v = if idx == 0 && j < 64 { 1u64 << j } else { biased_u64_bytes(&mut rng) };
        let got = catch_unwind(|| {
            (
                HumanCount(v).to_string(),
                HumanBytes(v).to_string(),
                BinaryBytes(v).to_string(),
                DecimalBytes(v).to_string(),
            )
        });
        let Ok((hc, hb, bb, db)) = got else {
            fail!("panic", "u64", format!("a byte/count formatter panicked for {v}"), J::from(v));
        };
        if hc != group(&v.to_string()) {
            fail!("human-count", "u64", format!("HumanCount({v}) = {hc:?}, expected {:?}", group(&v.to_string())), J::from(v));
        }
        if let Err(e) = check_bytes(&hb, v, 1024, &BIN_UNITS) {
            fail!("human-bytes", "binary", format!("HumanBytes({v}) = {hb:?}: {e}"), J::from(v));
        }
        if bb != hb {
            fail!("human-bytes", "binary", format!("BinaryBytes({v}) = {bb:?} != HumanBytes = {hb:?}"), J::from(v));
        }
        if let Err(e) = check_bytes(&db, v, 1000, &DEC_UNITS) {
            fail!("human-bytes", "decimal", format!("DecimalBytes({v}) = {db:?}: {e}"), J::from(v));
        }
        // ---- f64 --------------------------------------------------------------------------------
        let x = biased_f64(&mut rng);
        let precision = if rng.chance(1, 3) { None } else { Some(rng.range(0, 25) as usize) };
        let got = catch_unwind(|| match precision {
            Some(p) => format!("{:.*}", p, HumanFloatCount(x)),
            None => format!("{}", HumanFloatCount(x)),
        });
        let class = float_class(x, precision);
        let w = J::obj().with("value", format!("{x:?}")).with("precision", precision.map(|p| p as u64));
        let Ok(got) = got else {
            fail!("panic", class, format!("HumanFloatCount({x:?}) with precision {precision:?} panicked"), w);
        };
        let want = ref_float(x, precision.unwrap_or(4));
        if got != want {
            fail!("human-float-count", class, format!("HumanFloatCount({x:?}) precision {precision:?} = {got:?}, expected {want:?}"), w);
        }
        co.see("float_classes", fnv1a(class.as_bytes()));
        // ---- Duration ---------------------------------------------------------------------------
        let slot = idx * BATCH + j;
        let d = if (slot as usize) < boundaries.len() { boundaries[slot as usize] } else { biased_duration(&mut rng) };
        let got = catch_unwind(AssertUnwindSafe(|| {
            (
                FormattedDuration(d).to_string(),
                HumanDuration(d).to_string(),
                format!("{:#}", HumanDuration(d)),
            )
        }));
        let w = J::from(format!("{d:?}"));
        let Ok((fd, hd, hda)) = got else {
            fail!("panic", "duration", format!("a duration formatter panicked for {d:?}"), w);
        };
        if fd != ref_formatted_duration(d) {
            fail!("formatted-duration", "duration", format!("FormattedDuration({d:?}) = {fd:?}, expected {:?}", ref_formatted_duration(d)), w);
        }
        let (uidx, counts) = ref_human_duration(d);
        let ok = counts.iter().any(|c| {
            let (p, a) = human_duration_strings(uidx, *c);
            p == hd && a == hda
        });
        if !ok {
            let (p, a) = human_duration_strings(uidx, counts[0]);
            fail!("human-duration", "duration", format!("HumanDuration({d:?}) = {hd:?} / {hda:?}, expected {p:?} / {a:?}"), w);
        }
        checked += 3;
    }
    // monotonicity of HumanDuration over a sorted sample
    let mut ds: Vec<Duration> = (0..200).map(|_| biased_duration(&mut rng)).collect();
    ds.sort();
    let mut prev: Option<(u128, Duration, String)> = None;
    for d in ds {
        let s = HumanDuration(d).to_string();
        let mut it = s.split(' ');
        let n: u128 = it.next().and_then(|x| x.parse().ok()).unwrap_or(0);
        let name = it.next().unwrap_or("").trim_end_matches('s').to_string();
        let unit = UNITS.iter().find(|u| u.1 == name).map(|u| u.0).unwrap_or(0);
        let q = n * unit;
        if let Some((pq, pd, ps)) = &prev {
            if q < *pq {
                co.verdict = violation(
                    "human-duration-not-monotone",
                    "duration",
                    format!("{pd:?} -> {ps:?} but the longer {d:?} -> {s:?}"),
                    J::from(format!("{pd:?} < {d:?}")),
                    replay.clone(),
                );
                return co;
            }
        }
        prev = Some((q, d, s));
    }
    co.count("values_checked", checked);
    co.count("monotonicity_pairs_checked", 199);
    if idx < 2 {
        co.sample = Some(J::obj().with("batch", idx).with("example", format!("HumanFloatCount(-1234.5)={}", ref_float(-1234.5, 4))));
    }
    co
}

pub fn run(cfg: &RunCfg) -> PropResult {
    let boundaries = boundary_durations();
    let report = if let Some(case) = &cfg.case {
        let mut it = case.split(':');
        let seed: u64 = it.next().and_then(|s| s.parse().ok()).unwrap_or(cfg.seed);
        let idx: u64 = it.next().and_then(|s| s.parse().ok()).unwrap_or(0);
        let mut r = crate::report::Report::default();
        r.add(idx, run_batch(seed, idx, &boundaries));
        r
    } else {
        let n = if cfg.thorough { 130_000 } else { 700 };
        let n = n.max((boundaries.len() as u64).div_ceil(BATCH) + 1);
        let mut r = run_parallel(n, workers(), |i| run_batch(cfg.seed, i, &boundaries));
        r.extra.insert("exhaustive_duration_boundary_points".into(), J::from(boundaries.len()));
        r
    };
    PropResult {
        report,
        rule: format!("each evaluation is a batch of {BATCH} (u64, f64+precision, Duration) triples: powers of 2/10 and unit boundaries +-2, boundary-biased and random bit-pattern floats with precisions 0..=25, every HumanDuration unit boundary and n+1/2 switch point +-{{0,1ns,1ms}} exhaustively, plus random values; all batches are distinct by construction (different PRNG stream) and non-trivial (1500 comparisons each)"),
        exhaustive: false,
    }
}
