//! C16: tabs are always expanded before reaching the terminal.

use super::{PropResult, RunCfg};
use crate::json::J;
use crate::prng::{fnv1a, Rng};
use crate::rend::last_frame_lines;
use crate::report::{run_parallel, workers, CaseOut, Verdict, Violation};
use crate::spy::{CallKind, SpyTerm};
use indicatif::{MultiProgress, ProgressBar, ProgressDrawTarget, ProgressFinish, ProgressState, ProgressStyle};
use std::fmt::Write;
use std::panic::{catch_unwind, AssertUnwindSafe};

// the last two: a stray "{ " (brace + blank) that the parser keeps as literal text and then joins with the literal
// behind it, and escaped braces around a tab (round 11: literals glued together without a second look for tabs)
const TEMPLATES: [&str; 7] = [
    "{prefix}|{msg}",
    "a\tb {msg}",
    "{custom}\t{msg}|{prefix}",
    "\t{msg}\t",
    "{msg}\n\tx{prefix}",
    "{ s\t{msg}\ty{ \t",
    "a{{\tb}}\t{msg}",
];
const WIDTHS: [usize; 5] = [0, 1, 2, 8, 13];

fn text(rng: &mut Rng, tag: &str) -> String {
    let mut s = tag.to_string();
    for _ in 0..rng.range(0, 5) {
        match rng.below(3) {
            0 => s.push('\t'),
            1 => s.push_str("\t\t"),
            _ => s.push(*rng.pick(&['x', 'y', ' '])),
        }
    }
    if rng.chance(1, 3) {
        s.insert(0, '\t');
    }
    s
}

#[derive(Clone, Debug)]
enum Op {
    TabWidth(usize),
    Style(usize),
    /// `set_style(pb.style().template(..))`: the bar's current style (which carries the bar's tab width)
    /// gets a new template and is installed again
    Restyle(usize),
    /// `set_style(donor.style())`: the style of another bar, which carries that bar's tab width
    Transplant(usize, usize),
    /// `set_style(saved)`: the bar's own style as `style()` returned it right after construction
    Reinstall,
    Msg(String),
    Prefix(String),
}

fn expand(s: &str, w: usize) -> String {
    s.replace('\t', &" ".repeat(w))
}

fn model_lines(tmpl: usize, msg: &str, prefix: &str, w: usize) -> Vec<String> {
    let t = TEMPLATES[tmpl];
    let rendered = expand(t, w)
        .replace("{{", "\u{1}")
        .replace("}}", "\u{2}")
        .replace("{msg}", &expand(msg, w))
        .replace("{prefix}", &expand(prefix, w))
        .replace("{custom}", &expand("c\tk", w))
        .replace('\u{1}', "{")
        .replace('\u{2}', "}");
    let mut lines: Vec<String> = rendered.split('\n').map(|l| l.to_string()).collect();
    if lines.last().map(|l| l.is_empty()).unwrap_or(false) {
        lines.pop();
    }
    lines
}

fn style_for(t: usize) -> ProgressStyle {
    style_for_route(t, t)
}

fn style_for_route(t: usize, route: usize) -> ProgressStyle {
    // the custom key's output reaches the writer through every entry point of fmt::Write:
    // write_str, write_char and write_fmt with a char argument
    ProgressStyle::with_template(TEMPLATES[t]).unwrap().with_key("custom", move |_: &ProgressState, w: &mut dyn Write| {
        match route % 3 {
            0 => {
                let _ = w.write_str("c\tk");
            }
            1 => {
                for c in "c\tk".chars() {
                    let _ = w.write_char(c);
                }
            }
            _ => {
                let _ = write!(w, "c{}k", '\t');
            }
        }
    })
}

fn viol(rule: &str, feats: Vec<String>, detail: String, w: J, replay: String) -> Verdict {
    Verdict::Violated(Box::new(Violation { rule: rule.into(), features: feats, detail, witness: w, replay }))
}

fn tab_in_calls(spy: &SpyTerm) -> Option<String> {
    let st = spy.state();
    st.log.as_ref().and_then(|log| {
        log.iter()
            .find(|c| matches!(c.kind, CallKind::WriteStr | CallKind::WriteLine) && c.text.as_deref().map_or(false, |t| t.contains('\t')))
            .and_then(|c| c.text.clone())
    })
}

fn run_case(seed: u64, idx: u64) -> CaseOut {
    let mut rng = Rng::derive(seed, 16, idx);
    let replay = format!("{seed}:{idx}");
    let in_multi = rng.chance(1, 3);
    let route = rng.usize(3);
    let style_for = |t: usize| style_for_route(t, route);
    let spy = SpyTerm::new(200, 100, false);
    spy.enable_log();
    spy.state().snap_on_flush = false;
    let mut history: Vec<String> = Vec::new();
    let mut co = CaseOut::held(0, true);
    // ---- construction: builder calls in a random order ----------------------------------------------
    let (mut tmpl, mut msg, mut prefix, mut tw) = (0usize, String::new(), String::new(), 8usize);
    // a bar that is going to join a MultiProgress starts without a terminal; so does a quarter of the others
    // (they get theirs through set_draw_target). Whatever is configured meanwhile must stick.
    let hidden_start = in_multi || rng.chance(1, 4);
    let target = if hidden_start { ProgressDrawTarget::hidden() } else { ProgressDrawTarget::term_like(spy.boxed()) };
    let mut pb = ProgressBar::with_draw_target(Some(10), target);
    let mut order: Vec<u8> = vec![0, 1, 2, 3];
    for i in (1..order.len()).rev() {
        order.swap(i, rng.usize(i + 1));
    }
    let finish_msg = text(&mut rng, "F");
    let use_finish = rng.chance(1, 3);
    // the final message arrives through the finishing or the abandoning flavour of the call
    let abandon_variant = rng.chance(1, 2);
    let res = catch_unwind(AssertUnwindSafe(|| -> Result<(), Verdict> {
        for o in &order {
            match o {
                0 if rng.chance(2, 3) => {
                    tw = *rng.pick(&WIDTHS);
                    pb = pb.clone().with_tab_width(tw);
                    history.push(format!("with_tab_width({tw})"));
                }
                1 => {
                    tmpl = rng.usize(TEMPLATES.len());
                    pb = pb.clone().with_style(style_for(tmpl));
                    history.push(format!("with_style({:?})", TEMPLATES[tmpl]));
                }
                2 if rng.chance(2, 3) => {
                    msg = text(&mut rng, "m");
                    pb = pb.clone().with_message(msg.clone());
                    history.push(format!("with_message({msg:?})"));
                }
                3 if rng.chance(1, 2) => {
                    prefix = text(&mut rng, "p");
                    pb = pb.clone().with_prefix(prefix.clone());
                    history.push(format!("with_prefix({prefix:?})"));
                }
                _ => {}
            }
        }
        if !history.iter().any(|h| h.starts_with("with_style")) {
            pb.set_style(style_for(0));
            tmpl = 0;
        }
        if use_finish {
            pb = pb.clone().with_finish(if abandon_variant { ProgressFinish::AbandonWithMessage(finish_msg.clone().into()) } else { ProgressFinish::WithMessage(finish_msg.clone().into()) });
        }
        // ---- operations while the bar has no terminal: only the getters can be looked at -------------------
        if hidden_start {
            for _ in 0..rng.range(0, 3) {
                match rng.below(4) {
                    0 => {
                        tw = *rng.pick(&WIDTHS);
                        pb.set_tab_width(tw);
                        history.push(format!("(hidden) set_tab_width({tw})"));
                    }
                    1 => {
                        tmpl = rng.usize(TEMPLATES.len());
                        pb.set_style(style_for(tmpl));
                        history.push(format!("(hidden) set_style({:?})", TEMPLATES[tmpl]));
                    }
                    2 => {
                        msg = text(&mut rng, "m");
                        pb.set_message(msg.clone());
                        history.push(format!("(hidden) set_message({msg:?})"));
                    }
                    _ => {
                        prefix = text(&mut rng, "p");
                        pb.set_prefix(prefix.clone());
                        history.push(format!("(hidden) set_prefix({prefix:?})"));
                    }
                }
                if pb.message() != expand(&msg, tw) || pb.prefix() != expand(&prefix, tw) {
                    return Err(viol(
                        "getter-not-expanded",
                        vec!["getter".into(), "hidden-bar".into(), format!("tab-width-{tw}")],
                        format!("on a bar without terminal, after {:?}: message() = {:?} / prefix() = {:?}, expected {:?} / {:?}", history.last(), pb.message(), pb.prefix(), expand(&msg, tw), expand(&prefix, tw)),
                        J::from(history.clone()),
                        replay.clone(),
                    ));
                }
            }
        }
        let mp = in_multi.then(|| MultiProgress::with_draw_target(ProgressDrawTarget::term_like(spy.boxed())));
        if let Some(mp) = &mp {
            pb = mp.add(pb.clone());
        } else if hidden_start {
            pb.set_draw_target(ProgressDrawTarget::term_like(spy.boxed()));
            history.push("set_draw_target(terminal)".into());
        }
        let n = rng.range(1, 6);
        let mut ops = Vec::new();
        for _ in 0..n {
            ops.push(match rng.below(7) {
                0 => Op::TabWidth(*rng.pick(&WIDTHS)),
                5 => Op::Transplant(rng.usize(TEMPLATES.len()), *rng.pick(&WIDTHS)),
                6 => Op::Reinstall,
                1 => Op::Style(rng.usize(TEMPLATES.len())),
                4 => Op::Restyle(rng.usize(TEMPLATES.len())),
                2 => Op::Msg(text(&mut rng, "m")),
                _ => Op::Prefix(text(&mut rng, "p")),
            });
        }
        let check = |pb: &ProgressBar, tmpl: usize, msg: &str, prefix: &str, tw: usize, history: &[String], after: &str| -> Result<(), Verdict> {
            let w = J::obj().with("history", J::from(history.to_vec())).with("in_multi", in_multi);
            let feats = |k: &str| vec![k.to_string(), format!("template-{tmpl}"), format!("tab-width-{tw}")];
            spy.state().log = Some(Vec::new());
            pb.force_draw();
            if let Some(t) = tab_in_calls(&spy) {
                return Err(viol("tab-reached-terminal", feats("raw-tab"), format!("after {after}: a TAB was written to the terminal: {t:?}"), w, replay.clone()));
            }
            let lines = last_frame_lines(&spy);
            let want = model_lines(tmpl, msg, prefix, tw);
            let trim = |v: &[String]| v.iter().map(|l| l.trim_end().to_string()).collect::<Vec<_>>();
            if trim(&lines) != trim(&want) {
                return Err(viol("tab-expansion-wrong", feats("expansion"), format!("after {after}: frame {lines:?}, expected {want:?} (tab width {tw})"), w, replay.clone()));
            }
            if pb.message() != expand(msg, tw) || pb.prefix() != expand(prefix, tw) {
                return Err(viol("getter-not-expanded", feats("getter"), format!("after {after}: message() = {:?} / prefix() = {:?}, expected {:?} / {:?}", pb.message(), pb.prefix(), expand(msg, tw), expand(prefix, tw)), w, replay.clone()));
            }
            Ok(())
        };
        check(&pb, tmpl, &msg, &prefix, tw, &history, "construction")?;
        let saved = (pb.style(), tmpl);
        for op in ops {
            let name = format!("{op:?}");
            match op {
                Op::TabWidth(w) => {
                    tw = w;
                    pb.set_tab_width(w);
                }
                Op::Style(t) => {
                    tmpl = t;
                    pb.set_style(style_for(t));
                }
                Op::Restyle(t) => {
                    tmpl = t;
                    pb.set_style(pb.style().template(TEMPLATES[t]).unwrap());
                }
                Op::Transplant(t, dw) => {
                    tmpl = t;
                    let donor = ProgressBar::hidden().with_tab_width(dw).with_style(style_for(t));
                    pb.set_style(donor.style());
                }
                Op::Reinstall => {
                    tmpl = saved.1;
                    pb.set_style(saved.0.clone());
                }
                Op::Msg(m) => {
                    msg = m.clone();
                    pb.set_message(m);
                }
                Op::Prefix(p) => {
                    prefix = p.clone();
                    pb.set_prefix(p);
                }
            }
            history.push(name.clone());
            // the draw caused by the operation itself must not leak a tab either
            if let Some(t) = tab_in_calls(&spy) {
                return Err(viol("tab-reached-terminal", vec!["raw-tab".into()], format!("during {name}: a TAB was written to the terminal: {t:?}"), J::from(history.clone()), replay.clone()));
            }
            check(&pb, tmpl, &msg, &prefix, tw, &history, &name)?;
        }
        // finishing with a message (explicitly or through drop + WithMessage)
        spy.state().log = Some(Vec::new());
        if use_finish {
            history.push(format!("drop with WithMessage({finish_msg:?})"));
            let keep = pb.clone();
            pb.finish_using_style();
            msg = finish_msg.clone();
            check(&keep, tmpl, &msg, &prefix, tw, &history, "finish_using_style")?;
        } else {
            let fm = text(&mut rng, "f");
            if abandon_variant {
                history.push(format!("abandon_with_message({fm:?})"));
                pb.abandon_with_message(fm.clone());
            } else {
                history.push(format!("finish_with_message({fm:?})"));
                pb.finish_with_message(fm.clone());
            }
            msg = fm;
            check(&pb, tmpl, &msg, &prefix, tw, &history, if abandon_variant { "abandon_with_message" } else { "finish_with_message" })?;
        }
        if spy.state().screen.tabs_seen > 0 {
            return Err(viol("tab-reached-terminal", vec!["raw-tab".into()], "the terminal emulator saw a TAB byte".into(), J::from(history.clone()), replay.clone()));
        }
        drop(mp);
        Ok(())
    }));
    match res {
        Ok(Ok(())) => {}
        Ok(Err(v)) => co.verdict = v,
        Err(p) => {
            co.verdict = viol("panic", vec!["panic".into()], format!("panicked: {}", crate::world::panic_message(&p)), J::from(history.clone()), replay);
            std::mem::forget(pb);
            co.hash = idx;
            return co;
        }
    }
    co.hash = fnv1a(format!("{in_multi}{history:?}").as_bytes());
    co.nontrivial = history.iter().any(|h| h.contains("\\t"));
    co.count("draws_scanned_for_tabs", history.len() as u64 + 1);
    co.count("terminal_calls_scanned", spy.calls());
    if idx < 3 {
        co.sample = Some(J::obj().with("in_multi", in_multi).with("history", J::from(history)));
    }
    co
}

// ---- concurrent lane ---------------------------------------------------------------------------------
// set_message / set_prefix / finish_with_message convert their argument (`Into<Cow<str>>`) inside the
// call. A text type whose conversion lets a second thread run `set_tab_width` (and waits a moment for it)
// puts the width change at every point of the call where the bar's lock is not held. Whatever the
// order in which the two calls take effect, afterwards every text must be expanded with the width
// that is now in force.

struct SlowShared {
    go: std::sync::Mutex<Option<std::sync::mpsc::Sender<()>>>,
    done: std::sync::atomic::AtomicBool,
    overlapped: std::sync::atomic::AtomicBool,
}

struct SlowText(String, std::sync::Arc<SlowShared>);

impl From<SlowText> for std::borrow::Cow<'static, str> {
    fn from(t: SlowText) -> Self {
        use std::sync::atomic::Ordering::SeqCst;
        if let Some(tx) = t.1.go.lock().unwrap().take() {
            let _ = tx.send(());
            // give the other thread the chance to complete its call inside ours (it cannot when we hold the lock)
            let t0 = std::time::Instant::now();
            while !t.1.done.load(SeqCst) && t0.elapsed().as_micros() < 4_000 {
                std::thread::yield_now();
            }
            if t.1.done.load(SeqCst) {
                t.1.overlapped.store(true, SeqCst);
            }
        }
        std::borrow::Cow::Owned(t.0)
    }
}

fn concurrent_case(seed: u64, idx: u64) -> CaseOut {
    use std::sync::atomic::Ordering::SeqCst;
    let mut rng = Rng::derive(seed, 1616, idx);
    let replay = format!("t{seed}:{idx}");
    let tmpl = rng.usize(TEMPLATES.len());
    let w1 = *rng.pick(&WIDTHS);
    let mut w2 = *rng.pick(&WIDTHS);
    if w2 == w1 {
        w2 = if w1 == 8 { 3 } else { 8 };
    }
    let msg0 = text(&mut rng, "m");
    let pre0 = text(&mut rng, "p");
    let mut newtext = text(&mut rng, "n");
    if !newtext.contains('\t') {
        newtext.push_str("\tz");
    }
    let which = rng.below(3);
    let opname = ["set_message", "set_prefix", "finish_with_message"][which as usize];
    let spy = SpyTerm::new(200, 50, false);
    spy.enable_log();
    let pb = ProgressBar::with_draw_target(Some(10), ProgressDrawTarget::term_like(spy.boxed()));
    let mut co = CaseOut::held(fnv1a(format!("{tmpl}:{w1}:{w2}:{msg0}:{pre0}:{newtext}:{which}").as_bytes()), true);
    let witness = J::obj()
        .with("template", TEMPLATES[tmpl])
        .with("tab_width_before", w1)
        .with("tab_width_set_concurrently", w2)
        .with("call", opname)
        .with("text", newtext.clone());
    let shared = std::sync::Arc::new(SlowShared {
        go: std::sync::Mutex::new(None),
        done: std::sync::atomic::AtomicBool::new(false),
        overlapped: std::sync::atomic::AtomicBool::new(false),
    });
    let res = catch_unwind(AssertUnwindSafe(|| -> Verdict {
        pb.set_style(style_for(tmpl));
        pb.set_tab_width(w1);
        pb.set_message(msg0.clone());
        pb.set_prefix(pre0.clone());
        let (tx, rx) = std::sync::mpsc::channel::<()>();
        *shared.go.lock().unwrap() = Some(tx);
        let hb = pb.clone();
        let hs = shared.clone();
        let helper = std::thread::spawn(move || {
            if rx.recv().is_ok() {
                hb.set_tab_width(w2);
                hs.done.store(true, SeqCst);
            }
        });
        let slow = SlowText(newtext.clone(), shared.clone());
        match which {
            0 => pb.set_message(slow),
            1 => pb.set_prefix(slow),
            _ => pb.finish_with_message(slow),
        }
        shared.go.lock().unwrap().take();
        let _ = helper.join();
        if !shared.done.load(SeqCst) {
            return Verdict::Inconclusive("the text was never converted: set_tab_width did not run".into());
        }
        let (msg, pre) = if which == 1 { (msg0.clone(), newtext.clone()) } else { (newtext.clone(), pre0.clone()) };
        let (want_m, want_p) = (expand(&msg, w2), expand(&pre, w2));
        let (got_m, got_p) = (pb.message(), pb.prefix());
        if got_m != want_m || got_p != want_p {
            return viol(
                "texts-not-reexpanded-consistently",
                vec!["concurrent-set_tab_width".into(), opname.into()],
                format!(
                    "{opname}({newtext:?}) ran while another thread called set_tab_width({w2}) (before: {w1}); afterwards message() = {got_m:?} (expected {want_m:?}), prefix() = {got_p:?} (expected {want_p:?})"
                ),
                witness.clone(),
                replay.clone(),
            );
        }
        pb.force_draw();
        if let Some(t) = tab_in_calls(&spy) {
            return viol("tab-reached-terminal", vec!["concurrent-set_tab_width".into(), opname.into()], format!("a TAB reached the terminal in {t:?}"), witness.clone(), replay.clone());
        }
        let frame = last_frame_lines(&spy);
        let want = model_lines(tmpl, &msg, &pre, w2);
        let norm = |v: &[String]| v.iter().map(|l| l.trim_end().to_string()).collect::<Vec<_>>();
        if norm(&frame) != norm(&want) {
            return viol(
                "frame-not-reexpanded-consistently",
                vec!["concurrent-set_tab_width".into(), opname.into()],
                format!("after {opname} raced with set_tab_width({w2}) the frame reads {frame:?}, expected {want:?}"),
                witness.clone(),
                replay.clone(),
            );
        }
        Verdict::Held
    }));
    match res {
        Ok(v) => co.verdict = v,
        Err(p) => {
            std::mem::forget(pb);
            co.verdict = viol("panic", vec!["concurrent-set_tab_width".into()], format!("panicked: {}", crate::world::panic_message(&p)), witness, replay);
        }
    }
    co.count("concurrent_width_changes", 1);
    if shared.overlapped.load(SeqCst) {
        co.count("width_changes_completed_inside_the_other_call", 1);
    }
    co
}

pub fn run(cfg: &RunCfg) -> PropResult {
    console::set_colors_enabled(false);
    let report = if let Some(case) = &cfg.case {
        let conc = case.starts_with('t');
        let mut it = case.trim_start_matches('t').split(':');
        let seed: u64 = it.next().and_then(|s| s.parse().ok()).unwrap_or(cfg.seed);
        let idx: u64 = it.next().and_then(|s| s.parse().ok()).unwrap_or(0);
        let mut r = crate::report::Report::default();
        r.add(idx, if conc { concurrent_case(seed, idx) } else { run_case(seed, idx) });
        r
    } else {
        let n = if cfg.thorough { 6_000_000 } else { 600_000 };
        let mut r = run_parallel(n, workers(), |i| run_case(cfg.seed, i));
        let nt = if cfg.thorough { 100_000 } else { 3_000 };
        r.merge(crate::report::run_parallel_tagged('t', nt, workers(), |i| concurrent_case(cfg.seed, i)));
        r
    };
    PropResult {
        report,
        rule: "each evaluation: with_tab_width / with_style / with_message / with_prefix applied in a random order at construction, then 1-6 of set_tab_width / set_style (fresh style, or the bar's own style() with a new template) / set_message / set_prefix and a finish_with_message / abandon_with_message or a finish_using_style with WithMessage / AbandonWithMessage; tab widths {0,1,2,8,13}; texts with 0-10 tabs (leading, trailing, consecutive); tabs in template literals and in custom-key output; standalone and inside a MultiProgress; bars that join a MultiProgress (and a quarter of the others) are configured with 0-3 further operations while they have no terminal; after every operation every write_str/write_line argument is scanned for TAB, the forced frame is compared with the model expansion and message()/prefix() with the expanded text; non-trivial = at least one text of the history contains a tab; concurrent lane: set_message/set_prefix/finish_with_message with a text whose Into<Cow<str>> conversion lets a second thread run set_tab_width inside the call, final texts and frame compared with the expansion at the new width".into(),
        exhaustive: false,
    }
}
