//! Tiny Miri workloads: Miri's seeded scheduler supplies the interleavings, its deadlock detector
//! ("the evaluated program deadlocked") and data-race detector supply the verdicts; the program
//! itself checks conservation of increments (C07) and that every thread returns (C08).
//! usage: sched <scenario-number>
use indicatif::{MultiProgress, ProgressBar, ProgressDrawTarget, TermLike};
use std::io;
use std::sync::atomic::{AtomicU64, Ordering};
use std::sync::Arc;
use std::time::Duration;

#[derive(Debug, Clone)]
struct CountTerm(Arc<AtomicU64>);
impl TermLike for CountTerm {
    fn width(&self) -> u16 { 20 }
    fn height(&self) -> u16 { 10 }
    fn move_cursor_up(&self, _: usize) -> io::Result<()> { self.0.fetch_add(1, Ordering::Relaxed); Ok(()) }
    fn move_cursor_down(&self, _: usize) -> io::Result<()> { self.0.fetch_add(1, Ordering::Relaxed); Ok(()) }
    fn move_cursor_right(&self, _: usize) -> io::Result<()> { Ok(()) }
    fn move_cursor_left(&self, _: usize) -> io::Result<()> { Ok(()) }
    fn write_line(&self, _: &str) -> io::Result<()> { self.0.fetch_add(1, Ordering::Relaxed); Ok(()) }
    fn write_str(&self, _: &str) -> io::Result<()> { self.0.fetch_add(1, Ordering::Relaxed); Ok(()) }
    fn clear_line(&self) -> io::Result<()> { self.0.fetch_add(1, Ordering::Relaxed); Ok(()) }
    fn flush(&self) -> io::Result<()> { self.0.fetch_add(1, Ordering::Relaxed); Ok(()) }
}

fn rnd(x: &mut u64) -> u64 {
    *x ^= *x << 13;
    *x ^= *x >> 7;
    *x ^= *x << 17;
    *x
}

fn call(k: u64, pb: &ProgressBar, mp: &Option<MultiProgress>) -> i64 {
    match k % 13 {
        // (13 and 14 are only reachable from the counting scenarios, which pass them verbatim)
        _ if k == 13 => { pb.inc_length(3); 3 << 20 }
        _ if k == 14 => { pb.dec_length(1); -(1 << 20) }
        0 | 1 => { pb.update(|s| { let p = s.pos(); s.set_pos(p.wrapping_add(1)); }); 0 }
        2 => { pb.tick(); 0 }
        3 => { pb.inc(2); 2 }
        4 => { pb.set_message("m"); 0 }
        5 => { pb.enable_steady_tick(Duration::from_millis(1 + (k >> 8) % 2 * 3_600_000)); 0 }
        6 => { pb.disable_steady_tick(); 0 }
        7 => { pb.println("x"); 0 }
        8 => { drop(pb.clone()); 0 }
        9 => { pb.dec(1); -1 }
        10 => { if let Some(mp) = mp { let _ = mp.println("l"); } 0 }
        12 => { if let Some(mp) = mp { mp.remove(pb); let _ = mp.add(pb.clone()); } 0 }
        _ => { pb.suspend(|| ()); 0 }
    }
}

fn main() {
    let scenario: u64 = std::env::args().nth(1).and_then(|s| s.parse().ok()).unwrap_or(0);
    let mut x = scenario.wrapping_mul(0x9E3779B97F4A7C15) | 1;
    let calls = Arc::new(AtomicU64::new(0));
    let term = CountTerm(calls.clone());
    let multi = rnd(&mut x) % 3 == 0;
    let counting_only = scenario % 2 == 1; // odd scenarios: inc/dec only (C07 conservation)
    let target = if rnd(&mut x) % 2 == 0 { ProgressDrawTarget::term_like(Box::new(term)) } else { ProgressDrawTarget::hidden() };
    let mp = multi.then(|| MultiProgress::with_draw_target(target));
    let pb = match &mp {
        Some(mp) => mp.add(ProgressBar::with_draw_target(Some(50), ProgressDrawTarget::hidden())),
        None => {
            let t = if multi { ProgressDrawTarget::hidden() } else { ProgressDrawTarget::hidden() };
            let _ = t;
            ProgressBar::with_draw_target(Some(50), if rnd(&mut x) % 2 == 0 { ProgressDrawTarget::term_like(Box::new(CountTerm(calls.clone()))) } else { ProgressDrawTarget::hidden() })
        }
    };
    if !counting_only && rnd(&mut x) % 2 == 0 {
        pb.enable_steady_tick(Duration::from_millis(1));
    }
    let n_threads = 2 + rnd(&mut x) % 2;
    let handles: Vec<_> = (0..n_threads)
        .map(|_| {
            let n_calls = if counting_only { 8 } else { 2 + rnd(&mut x) % 3 };
            let ks: Vec<u64> = (0..n_calls).map(|_| if counting_only { [3u64, 9, 3, 13, 14, 13][(rnd(&mut x) % 6) as usize] } else { rnd(&mut x) }).collect();
            let (pb, mp) = (pb.clone(), mp.clone());
            std::thread::spawn(move || {
                let mut net: i64 = 0;
                for k in ks {
                    net += call(k, &pb, &mp);
                }
                net
            })
        })
        .collect();
    let mut net: i64 = 0;
    for h in handles {
        net += h.join().expect("worker panicked");
    }
    if counting_only {
        // position deltas live in the low 20 bits of the sum, length deltas above (both stay small)
        let len_net = (net + (1 << 19)) >> 20;
        let pos_net = net - (len_net << 20);
        let want = pos_net as u64;
        assert_eq!(pb.position(), want, "lost update: position {} expected {}", pb.position(), want);
        let want_len = Some((50 + len_net) as u64);
        assert_eq!(pb.length(), want_len, "lost update: length {:?} expected {:?}", pb.length(), want_len);
    }
    pb.disable_steady_tick();
    drop(pb);
    drop(mp);
    println!("scenario {scenario} done: threads {n_threads} counting_only {counting_only} terminal_calls {}", calls.load(Ordering::Relaxed));
}
