//! C01, C02, C03, C04, C19: screen-oracle properties.

use super::{PropResult, RunCfg};
use crate::gen::GenOpts;
use crate::report::{run_parallel, workers};
use crate::screen::{run_case, Judged, ScreenProp};

fn any_rule(rules: &'static [&'static str]) -> Box<crate::screen::Judge> {
    Box::new(move |_cfg, _ops, out| {
        out.fail.as_ref().and_then(|f| {
            rules.contains(&f.rule).then(|| Judged { rule: f.rule, detail: f.detail.clone() })
        })
    })
}

pub const SINGLE_RULES: &[&str] = &[
    "log-missing", "row-duplicated", "row-accounting", "residue-row", "frame-row-missing", "blank-row", "blank-row-missing", "row-order",
    "cursor-not-fresh-line", "bar-row-in-scrollback", "panic",
];

pub fn prop(id: &str) -> (ScreenProp, u64, u64) {
    match id {
        "C01" => {
            let mut wide = GenOpts::single();
            wide.wide = true;
            wide.widths = (2..=40).collect();
            (
                ScreenProp {
                    id: "C01",
                    opts: vec![("single-bar", GenOpts::single(), 9), ("single-bar-wide-chars", wide, 1)],
                    judge: any_rule(SINGLE_RULES),
                    check_cursor: true,
                },
                150_000,
                20_000_000,
            )
        }
        "C02" => {
            let base = GenOpts::multi();
            let mut bottom = GenOpts::multi();
            bottom.bottom = true;
            (
                ScreenProp {
                    id: "C02",
                    opts: vec![("multi-top", base, 7), ("multi-bottom-alignment", bottom, 2), ("multi-exhausted-limiter", {
                        let mut l = GenOpts::multi();
                        l.hz = vec![Some(1), Some(1), Some(3)];
                        l.exhaust = true;
                        l.finish_weight = 2;
                        l
                    }, 3)],
                    judge: any_rule(MEMBER_RULES),
                    check_cursor: true,
                },
                120_000,
                10_000_000,
            )
        }
        "C03" => {
            let mut single = GenOpts::single();
            single.log_weight = 3;
            let mut multi = GenOpts::multi();
            multi.log_weight = 3;
            multi.finish_weight = 2;
            multi.hz = vec![None, Some(1), Some(2), Some(20), Some(255)];
            multi.empty_lines = true;
            let mut limited = multi.clone();
            limited.hz = vec![Some(1), Some(1), Some(3)];
            limited.exhaust = true;
            (
                ScreenProp {
                    id: "C03",
                    opts: vec![("single-bar", single.clone(), 3), ("multi", multi.clone(), 5), ("multi-exhausted-limiter", limited, 3), ("multi-bottom-alignment", {
                        let mut b = multi;
                        b.bottom = true;
                        b
                    }, 2), ("multi-small-terminal", {
                        // terminals too short for all bars: log lines must survive frames that are cut
                        let mut t = GenOpts::multi();
                        t.log_weight = 3;
                        t.widths = vec![12, 20, 40];
                        t.heights = Some(vec![2, 3, 4, 5, 6]);
                        t.max_bars = 8;
                        t
                    }, 2), ("single-exhausted-limiter", {
                        let mut l = single;
                        l.hz = vec![Some(1), Some(1), Some(3)];
                        l.exhaust = true;
                        l
                    }, 2)],
                    judge: any_rule(LOG_RULES),
                    check_cursor: false,
                },
                150_000,
                20_000_000,
            )
        }
        "C04" => {
            let mut single = GenOpts::single();
            single.finish_weight = 4;
            single.exhaust = true;
            single.hz = vec![None, Some(1), Some(2), Some(20), Some(255)];
            single.max_ops = 25;
            let mut multi = GenOpts::multi();
            multi.finish_weight = 4;
            multi.exhaust = true;
            multi.hz = vec![None, Some(1), Some(3), Some(20), Some(255)];
            multi.max_bars = 5;
            multi.max_ops = 30;
            (
                ScreenProp {
                    id: "C04",
                    opts: vec![("single-bar", single, 4), ("multi", multi, 6)],
                    judge: Box::new(judge_c04),
                    check_cursor: false,
                },
                120_000,
                10_000_000,
            )
        }
        "C19" => {
            let sizes_w: Vec<u16> = (1..=12).collect();
            let sizes_h: Vec<u16> = (1..=8).collect();
            let mut single = GenOpts::single();
            single.widths = sizes_w.clone();
            single.heights = Some(sizes_h.clone());
            single.ansi = false;
            let mut multi = GenOpts::multi();
            multi.widths = (4..=12).collect();
            multi.heights = Some(sizes_h.clone());
            multi.max_bars = 6;
            let mut tall = GenOpts::multi();
            tall.widths = vec![20, 40];
            tall.heights = Some(vec![2, 3, 4, 5, 6]);
            tall.max_bars = 12;
            tall.multiline = true;
            let mut wide = single.clone();
            wide.wide = true;
            wide.widths = (2..=12).collect();
            (
                ScreenProp {
                    id: "C19",
                    opts: vec![("single-small-terminal", single, 4), ("multi-small-terminal", multi.clone(), 4), ("multi-many-bars", tall, 3), ("single-wide-chars", wide, 1), ("multi-narrow-exhausted-limiter", {
                        // wrapping rows whose repaint the limiter may decline: the accounting must follow what is
                        // really on the screen
                        let mut l = multi;
                        l.hz = vec![Some(1), Some(1), Some(3)];
                        l.exhaust = true;
                        l.finish_weight = 2;
                        l.heights = None;
                        l
                    }, 2)],
                    judge: any_rule(GEOMETRY_RULES),
                    check_cursor: false,
                },
                120_000,
                10_000_000,
            )
        }
        _ => unreachable!(),
    }
}

fn judge_c04(_cfg: &crate::world::WorldCfg, ops: &[crate::world::Op], out: &crate::screen::Outcome) -> Option<Judged> {
    use crate::world::Op;
    for o in &out.op_obs {
        if o.finishing && o.expect_flush && o.flushed == 0 {
            return Some(Judged {
                rule: "no-final-frame",
                detail: format!("{} (op {}) on B{:?} caused no flush at all: the final state was never painted", o.name, o.index, o.bar),
            });
        }
        if o.drop_finished && o.calls > 0 {
            return Some(Judged {
                rule: "drop-of-finished-bar-writes",
                detail: format!("dropping the already finished B{:?} (op {}) caused {} terminal calls", o.bar, o.index, o.calls),
            });
        }
    }
    if let Some(f) = &out.fail {
        if matches!(f.rule, "final-frame-missing" | "final-frame-stale") {
            return Some(Judged { rule: f.rule, detail: f.detail.clone() });
        }
        let finishing = matches!(
            ops.get(f.op_index),
            Some(Op::Finish(_) | Op::FinishMsg(..) | Op::FinishClear(_) | Op::Abandon(_) | Op::AbandonMsg(..) | Op::FinishStyle(_) | Op::DropBar(_) | Op::DropOne(_))
        );
        if finishing && matches!(f.rule, "frame-row-missing" | "residue-row" | "member-content" | "member-stale" | "member-missing" | "cleared-bar-visible" | "row-order" | "blank-row") {
            return Some(Judged { rule: "final-frame-wrong", detail: f.detail.clone() });
        }
        return None;
    }
    if let Some(g) = &out.getter_fail {
        return Some(Judged { rule: "getter-mismatch", detail: g.clone() });
    }
    None
}

pub const MEMBER_RULES: &[&str] = &[
    "residue-row", "member-duplicated", "removed-bar-visible", "frame-not-cleared", "member-stale",
    "member-content", "member-order", "member-missing", "cleared-bar-visible", "blank-row-in-frame",
    "blank-row", "cursor-not-fresh-line", "bar-row-in-scrollback", "panic",
];

pub const GEOMETRY_RULES: &[&str] = &[
    "log-missing", "row-duplicated", "residue-row", "frame-row-missing", "blank-row", "blank-row-missing", "row-order",
    "bar-row-in-scrollback", "panic", "member-duplicated", "member-stale", "member-content", "member-missing",
    "blank-row-in-frame", "log-duplicated", "log-below-bar", "cleared-bar-visible", "removed-bar-visible",
    // (a final frame that is stale or missing on a narrow or short terminal is how mis-counted rows surface first)
    "final-frame-stale", "final-frame-missing",
];

pub const LOG_RULES: &[&str] = &["log-missing", "log-duplicated", "log-reordered", "log-below-bar", "panic"];

pub const MULTI_RULES: &[&str] = &[
    "residue-row", "member-duplicated", "removed-bar-visible", "frame-not-cleared", "member-stale",
    "member-content", "member-order", "member-missing", "cleared-bar-visible", "blank-row-in-frame",
    "blank-row", "cursor-not-fresh-line", "bar-row-in-scrollback", "panic",
    "final-frame-stale", "final-frame-missing", "log-missing", "log-duplicated", "log-reordered", "log-below-bar",
];

pub fn run(id: &str, cfg: &RunCfg) -> PropResult {
    let (p, quick, thorough) = prop(id);
    let report = if let Some(case) = cfg.case.as_ref().filter(|c| c.starts_with('u') || c.starts_with('k') || c.starts_with('v') || c.starts_with('i') || c.starts_with('q') || c.starts_with('g') || c.starts_with('x') || c.starts_with('b')) {
        let mut it = case[1..].split(':');
        let seed: u64 = it.next().and_then(|s| s.parse().ok()).unwrap_or(cfg.seed);
        let idx: u64 = it.next().and_then(|s| s.parse().ok()).unwrap_or(0);
        let mut r = crate::report::Report::default();
        r.add(idx, if case.starts_with('x') { super::racelanes::geometry_sweep_case(idx) } else if case.starts_with('b') { super::racelanes::bottom_spare_case(seed, idx) } else if case.starts_with('g') { super::racelanes::retarget_window_case(seed, idx) } else if case.starts_with('u') { super::racelanes::suspend_race_case(seed, idx) } else if case.starts_with('v') { super::racelanes::move_cursor_finish_case(seed, idx) } else if case.starts_with('i') { super::racelanes::iter_finish_case(seed, idx) } else if case.starts_with('q') { super::racelanes::sequential_bars_case(seed, idx) } else { super::racelanes::ticker_race_case(seed, idx) });
        r
    } else if let Some(case) = cfg.case.as_ref().filter(|c| c.starts_with('c')) {
        let mut it = case[1..].split(':');
        let seed: u64 = it.next().and_then(|s| s.parse().ok()).unwrap_or(cfg.seed);
        let idx: u64 = it.next().and_then(|s| s.parse().ok()).unwrap_or(0);
        let mut r = crate::report::Report::default();
        r.add(idx, super::c02conc::concurrent_case(seed, idx));
        r
    } else if let Some(case) = &cfg.case {
        let mut it = case.split(':');
        let seed: u64 = it.next().and_then(|s| s.parse().ok()).unwrap_or(cfg.seed);
        let idx: u64 = it.next().and_then(|s| s.parse().ok()).unwrap_or(0);
        let mut r = crate::report::Report::default();
        r.add(idx, run_case(&p, seed, idx, None));
        r
    } else {
        let n = if cfg.thorough { thorough } else { quick };
        let mut r = run_parallel(n, workers(), |i| run_case(&p, cfg.seed, i, None));
        if id == "C02" {
            // schedule part: real threads (each run brings 2-8 of its own)
            let nc = if cfg.thorough { 20_000 } else { 400 };
            r.merge(crate::report::run_parallel_tagged('c', nc, 4, |i| super::c02conc::concurrent_case(cfg.seed, i)));
        }
        if id == "C02" {
            // schedule part: a member is retargeted while another thread redraws it
            let ng = if cfg.thorough { 60_000 } else { 1_500 };
            r.merge(crate::report::run_parallel_tagged('g', ng, workers(), |i| super::racelanes::retarget_window_case(cfg.seed, i)));
        }
        if id == "C03" || id == "C02" {
            // schedule part: a second thread's update let loose inside a suspend closure
            let nu = if cfg.thorough { 40_000 } else { 1_200 };
            r.merge(crate::report::run_parallel_tagged('u', nu, workers(), |i| super::racelanes::suspend_race_case(cfg.seed, i)));
        }
        if id == "C03" {
            // configuration part: bottom alignment with spare rows left by cleared members, then logs and redraws
            let nb = if cfg.thorough { 300_000 } else { 5_000 };
            r.merge(crate::report::run_parallel_tagged('b', nb, workers(), |i| super::racelanes::bottom_spare_case(cfg.seed, i)));
        }
        if id == "C04" {
            // configuration part: the one finishing history the move-cursor mode supports without residue
            let nv = if cfg.thorough { 400_000 } else { 6_000 };
            r.merge(crate::report::run_parallel_tagged('v', nv, workers(), |i| super::racelanes::move_cursor_finish_case(cfg.seed, i)));
            let ni = if cfg.thorough { 200_000 } else { 4_000 };
            r.merge(crate::report::run_parallel_tagged('i', ni, workers(), |i| super::racelanes::iter_finish_case(cfg.seed, i)));
        }
        if id == "C19" {
            // exhaustive slice: every width 1..=300 x lines of k*width-1 / k*width / k*width+1 columns, k 1..=8
            r.merge(crate::report::run_parallel_tagged('x', 300 * 24, workers(), |i| super::racelanes::geometry_sweep_case(i)));
        }
        if id == "C01" || id == "C19" {
            // usage part: standalone bars one after the other on the same terminal
            let nq = if cfg.thorough { 600_000 } else { 8_000 };
            r.merge(crate::report::run_parallel_tagged('q', nq, workers(), |i| super::racelanes::sequential_bars_case(cfg.seed, i)));
        }
        if id == "C01" {
            // schedule part: a steady-tick thread parked in front of a lock request while the bar is finished
            let nk = if cfg.thorough { 6_000 } else { 200 };
            r.merge(crate::report::run_parallel_tagged('k', nk, 8, |i| super::racelanes::ticker_race_case(cfg.seed, i)));
        }
        r
    };
    PropResult {
        report,
        rule: "seeded random operation histories (boundary-biased texts around multiples of the terminal width) executed against the real library on a spy terminal; a case is non-trivial when >= 2 flushed frames were checked and it contains >= 1 log line or >= 1 shrinking frame; distinct = distinct (configuration, op list) hashes".into(),
        exhaustive: false,
    }
}
