//! C18: terminal I/O failures never panic, poison or corrupt logical state.
//! Fault enumeration: every base history is first run fault-free to count its n terminal calls,
//! then re-run for EVERY k in 1..=n with "fail call k only" and with "fail call k and all later".

use super::{PropResult, RunCfg};
use crate::gen::{gen_history, GenOpts};
use crate::json::J;
use crate::prng::{fnv1a, Rng};
use crate::report::{run_parallel, workers, CaseOut, Verdict, Violation};
use crate::spy::{CallKind, FaultPlan};
use crate::world::{Op, World, WorldCfg};
use std::panic::{catch_unwind, AssertUnwindSafe};

fn viol(rule: &str, feats: Vec<String>, detail: String, w: J, replay: String) -> Verdict {
    Verdict::Violated(Box::new(Violation { rule: rule.into(), features: feats, detail, witness: w, replay }))
}

struct FaultRun {
    /// (rule, detail, op name where it happened)
    bad: Option<(&'static str, String, String)>,
    calls: u64,
    faults: u64,
    /// (op kind, terminal call kind) pairs hit by a fault
    pairs: Vec<(String, CallKind)>,
}

fn run_one(cfg: &WorldCfg, ops: &[Op], plan: FaultPlan, tail: u64) -> FaultRun {
    let mut w = World::new(cfg.clone());
    w.check_screen = false;
    w.spy.state().snap_on_flush = false;
    w.spy.enable_log();
    w.spy.set_fault(plan);
    w.run(ops);
    let mut bad: Option<(&'static str, String, String)> = None;
    if let Some(f) = &w.fail {
        // with the screen oracles off World reports panics and, after every operation, getters that left the model
        let name = ops.get(f.op_index).map(|o| o.name()).unwrap_or("?").to_string();
        let rule = match f.rule {
            "state-corrupted-by-io-error" => "state-corrupted-by-io-error",
            "getter-panics-after-io-error" => "getter-panics-after-io-error",
            _ => "panic-on-io-error",
        };
        bad = Some((rule, f.detail.clone(), name));
    }
    // ---- tail: a live bar changes its terminal while the old one may be failing ------------------------
    // (set_draw_target / adding a member to another or the same MultiProgress erase the bar from the old
    // terminal first; the logical state is untouched by any of them)
    let spy2 = crate::spy::SpyTerm::new(cfg.width, cfg.height, false);
    let mp2 = indicatif::MultiProgress::with_draw_target(indicatif::ProgressDrawTarget::term_like(spy2.boxed()));
    if bad.is_none() && tail == 4 {
        // ---- tail 4: nobody moves; the MultiProgress still knows every member whose draw may have failed --------
        // (round 11: a bar that detaches itself from its MultiProgress after an error of one particular kind)
        if let Some(mp) = w.mp.clone() {
            let fresh = || indicatif::ProgressBar::with_draw_target(Some(1), indicatif::ProgressDrawTarget::hidden());
            for b in w.bars.iter().flatten() {
                let Some(h) = b.handles.first() else { continue };
                if b.m.place != crate::world::Place::Member {
                    continue;
                }
                let probes: Vec<(&str, Box<dyn Fn()>)> = vec![
                    ("insert_after(member)", Box::new(|| drop(mp.insert_after(h, fresh())))),
                    ("insert_before(member)", Box::new(|| drop(mp.insert_before(h, fresh())))),
                ];
                for (pname, pf) in probes {
                    if let Err(p) = catch_unwind(AssertUnwindSafe(pf)) {
                        bad = Some(("later-call-panics", format!("{pname} relative to B{}, a member whose earlier draws may have failed, panicked: {}", b.m.id, crate::world::panic_message(&p)), pname.to_string()));
                        break;
                    }
                }
                if bad.is_some() {
                    break;
                }
            }
        }
    }
    if bad.is_none() && tail > 0 && tail < 4 {
        let mp = w.mp.clone();
        for b in w.bars.iter().flatten() {
            let Some(h) = b.handles.first() else { continue };
            let (name, f): (&str, Box<dyn Fn()>) = match tail {
                1 => ("set_draw_target", Box::new(|| h.set_draw_target(indicatif::ProgressDrawTarget::term_like(spy2.boxed())))),
                2 => ("add-to-second-MultiProgress", Box::new(|| drop(mp2.add(h.clone())))),
                _ => match &mp {
                    Some(mp) => ("re-add-to-own-MultiProgress", Box::new(move || drop(mp.add(h.clone())))),
                    None => ("set_draw_target", Box::new(|| h.set_draw_target(indicatif::ProgressDrawTarget::term_like(spy2.boxed())))),
                },
            };
            if let Err(p) = catch_unwind(AssertUnwindSafe(f)) {
                bad = Some(("panic-on-io-error", format!("{name} on B{} panicked: {}", b.m.id, crate::world::panic_message(&p)), name.to_string()));
            }
            // the bar now belongs to its new owner, whatever the old terminal said while it was erased there:
            // the owner can position other bars relative to it and remove it
            if bad.is_none() && tail >= 2 {
                let owner = if tail == 2 { Some(&mp2) } else { mp.as_ref() };
                if let Some(owner) = owner {
                    let fresh = || indicatif::ProgressBar::with_draw_target(Some(1), indicatif::ProgressDrawTarget::hidden());
                    let probes: Vec<(&str, Box<dyn Fn()>)> = vec![
                        ("insert_after(moved bar)", Box::new(|| drop(owner.insert_after(h, fresh())))),
                        ("insert_before(moved bar)", Box::new(|| drop(owner.insert_before(h, fresh())))),
                        ("remove(moved bar)", Box::new(|| owner.remove(h))),
                    ];
                    for (pname, pf) in probes {
                        if let Err(p) = catch_unwind(AssertUnwindSafe(pf)) {
                            bad = Some(("later-call-panics", format!("after {name} on B{} (during which a terminal call may have failed), {pname} on the new owner panicked: {}", b.m.id, crate::world::panic_message(&p)), pname.to_string()));
                            break;
                        }
                    }
                }
            }
            break; // one bar changes its terminal
        }
    }
    // io::Result-returning calls must report an error that happened inside them
    if bad.is_none() {
        for (i, name, ok) in w.io_results.borrow().iter() {
            let faults = w.op_faults.iter().find(|(j, _)| *j as u64 == *i).map(|(_, f)| *f).unwrap_or(0);
            if *ok && faults > 0 {
                bad = Some(("io-error-not-reported", format!("{name} (op {i}) returned Ok although {faults} terminal call(s) failed inside it"), name.to_string()));
                break;
            }
        }
    }
    // logical state must be what it would be without the failure
    if bad.is_none() {
        for b in w.bars.iter().flatten() {
            if let Some(h) = b.handles.first() {
                let r = catch_unwind(AssertUnwindSafe(|| (h.position(), h.length(), h.is_finished(), h.message(), h.prefix())));
                match r {
                    Err(p) => {
                        bad = Some(("getter-panics-after-io-error", format!("a getter of B{} panicked: {}", b.m.id, crate::world::panic_message(&p)), "getter".into()));
                    }
                    Ok((p, l, f, m, pre)) => {
                        let exp = |s: &str| s.replace('\t', &" ".repeat(b.m.tab));
                        if p != b.m.pos || l != b.m.len || f != b.m.finished() || m != exp(&b.m.msg) || pre != exp(&b.m.prefix) {
                            bad = Some((
                                "state-corrupted-by-io-error",
                                format!(
                                    "B{}: position {p} / length {l:?} / finished {f} / message {m:?}; without the failure: {} / {:?} / {} / {:?}",
                                    b.m.id,
                                    b.m.pos,
                                    b.m.len,
                                    b.m.finished(),
                                    exp(&b.m.msg)
                                ),
                                "getter".into(),
                            ));
                        }
                    }
                }
            }
            if bad.is_some() {
                break;
            }
        }
    }
    // probe battery: later calls on the same bar, on siblings and on the MultiProgress keep working
    if bad.is_none() {
        let mp = w.mp.clone();
        'probe: for b in w.bars.iter().flatten() {
            if let Some(h) = b.handles.first() {
                let probes: Vec<(&str, Box<dyn Fn()>)> = vec![
                    ("tick", Box::new(|| h.tick())),
                    ("set_message", Box::new(|| h.set_message("probe"))),
                    ("inc", Box::new(|| h.inc(1))),
                    ("println", Box::new(|| h.println("probe line"))),
                    ("suspend", Box::new(|| h.suspend(|| ()))),
                    ("set_tab_width", Box::new(|| h.set_tab_width(4))),
                    ("set_length", Box::new(|| h.set_length(7))),
                    ("force_draw", Box::new(|| h.force_draw())),
                    ("clone+drop", Box::new(|| drop(h.clone()))),
                    ("finish", Box::new(|| h.finish())),
                ];
                for (name, f) in probes {
                    if let Err(p) = catch_unwind(AssertUnwindSafe(f)) {
                        bad = Some(("later-call-panics", format!("{name} on B{} after the I/O failure panicked: {}", b.m.id, crate::world::panic_message(&p)), name.to_string()));
                        break 'probe;
                    }
                }
            }
        }
        if bad.is_none() {
            if let Some(mp) = &mp {
                for (name, f) in [
                    ("mp.println", Box::new(|| drop(mp.println("probe"))) as Box<dyn Fn()>),
                    ("mp.clear", Box::new(|| drop(mp.clear()))),
                    ("mp.suspend", Box::new(|| mp.suspend(|| ()))),
                ] {
                    if let Err(p) = catch_unwind(AssertUnwindSafe(f)) {
                        bad = Some(("later-call-panics", format!("{name} after the I/O failure panicked: {}", crate::world::panic_message(&p)), name.to_string()));
                        break;
                    }
                }
            }
        }
    }
    let st = w.spy.state();
    let calls = st.calls;
    let faults = st.faults_injected;
    let mut pairs = Vec::new();
    if let Some(log) = &st.log {
        for c in log.iter().filter(|c| c.failed) {
            let opname = if c.op == 0 { "probe".to_string() } else { ops.get(c.op as usize - 1).map(|o| o.name()).unwrap_or("probe").to_string() };
            pairs.push((opname, c.kind));
        }
    }
    drop(st);
    // drop everything, one handle at a time; a panicking drop is a violation as well
    let World { bars, mp, .. } = w;
    for b in bars.into_iter().flatten() {
        for h in b.handles {
            if let Err(p) = catch_unwind(AssertUnwindSafe(move || drop(h))) {
                if bad.is_none() {
                    bad = Some(("drop-panics-after-io-error", format!("dropping B{} panicked: {}", b.m.id, crate::world::panic_message(&p)), "drop".into()));
                }
                break;
            }
        }
    }
    let _ = catch_unwind(AssertUnwindSafe(move || drop(mp)));
    indicatif::verif_hooks::install(None);
    FaultRun { bad, calls, faults, pairs }
}

fn opts(multi: bool) -> GenOpts {
    let mut o = if multi { GenOpts::multi() } else { GenOpts::single() };
    o.min_ops = 3;
    o.max_ops = 14;
    o.tabs = true;
    o.hz = vec![None, None, Some(20)];
    o.widths = vec![10, 20, 40];
    o.max_bars = 3;
    o.log_weight = 2;
    o
}

fn run_case(seed: u64, idx: u64) -> CaseOut {
    let mut rng = Rng::derive(seed, 18, idx);
    let multi = idx % 2 == 1;
    let (mut cfg, ops) = gen_history(&mut rng, &opts(multi));
    // half of the MultiProgress worlds overwrite frames in place (a different sequence of terminal calls)
    cfg.move_cursor = multi && rng.chance(1, 2);
    let replay = format!("{seed}:{idx}");
    // a third of the histories end with a live bar changing its terminal
    let tail = if rng.chance(1, 3) { rng.range(1, 4) } else { 0 };
    // the kind of error the terminal reports (no kind is a licence to swallow the failure)
    let err_kind = rng.below(crate::spy::FAULT_KINDS.len() as u64) as u8;
    let base = run_one(&cfg, &ops, FaultPlan::default(), tail);
    let mut co = CaseOut::held(fnv1a(format!("{cfg:?}{ops:?}").as_bytes()), base.calls >= 4);
    let w = |k: u64, later: bool| {
        J::obj()
            .with("terminal", format!("{}x{} multi={} move_cursor={}", cfg.width, cfg.height, cfg.multi, cfg.move_cursor))
            .with("ops", J::Arr(ops.iter().map(|o| o.to_json()).collect()))
            .with("tail", ["none", "set_draw_target", "add to a second MultiProgress", "re-add to its own MultiProgress", "insert relative to every member"][tail as usize])
            .with("error_kind", format!("{:?}", crate::spy::FAULT_KINDS[err_kind as usize]))
            .with("fail_call", k)
            .with("and_all_later", later)
    };
    if let Some((rule, d, _)) = &base.bad {
        // a problem without any fault belongs to another property; no verdict here
        co.verdict = Verdict::Inconclusive(format!("fault-free run already fails: {rule}: {}", d.chars().take(80).collect::<String>()));
        return co;
    }
    let n = base.calls;
    // exhaustive in k for histories up to 400 calls, sampled above
    let ks: Vec<u64> = if n <= 400 { (1..=n).collect() } else { (0..400).map(|_| rng.range(1, n)).collect() };
    let mut points = 0u64;
    let mut injected = 0u64;
    for k in ks {
        for later in [false, true] {
            let r = run_one(&cfg, &ops, FaultPlan { fail_at: k, and_later: later, kind: err_kind }, tail);
            points += 1;
            injected += r.faults;
            for (op, call) in &r.pairs {
                co.see("op_x_terminal_call_pairs_hit", fnv1a(format!("{op}:{call:?}").as_bytes()));
            }
            if let Some((rule, d, opname)) = r.bad {
                co.verdict = viol(rule, vec![format!("in-{opname}"), format!("{:?}", crate::spy::FAULT_KINDS[err_kind as usize]), if cfg.move_cursor { "multi-move-cursor".into() } else if multi { "multi".into() } else { "single".into() }], format!("fail terminal call {k}{}: {d}", if later { " and all later ones" } else { "" }), w(k, later), replay.clone());
                co.count("fault_points_enumerated", points);
                return co;
            }
        }
    }
    co.count("fault_points_enumerated", points);
    co.count("faults_injected", injected);
    co.count("terminal_calls_in_fault_free_runs", n);
    co.max("terminal_calls_per_history", n);
    if idx < 3 {
        co.sample = Some(w(0, false));
    }
    co
}

pub fn run(cfg: &RunCfg) -> PropResult {
    let report = if let Some(case) = &cfg.case {
        let mut it = case.split(':');
        let seed: u64 = it.next().and_then(|s| s.parse().ok()).unwrap_or(cfg.seed);
        let idx: u64 = it.next().and_then(|s| s.parse().ok()).unwrap_or(0);
        let mut r = crate::report::Report::default();
        r.add(idx, run_case(seed, idx));
        r
    } else {
        let n = if cfg.thorough { 40_000 } else { 600 };
        run_parallel(n, workers(), |i| run_case(cfg.seed, i))
    };
    PropResult {
        report,
        rule: "each evaluation: one base history (3-14 generated operations plus the revealing suffix: ticks, position/length updates, texts with tabs, set_tab_width, println, suspend, finish*/abandon*, drop, and for MultiProgress worlds add/insert/remove/mp.println/mp.clear/mp.suspend, half of them with set_move_cursor(true); a third of the histories end with a live bar changing its terminal: set_draw_target, add to a second MultiProgress, re-add to its own) is run fault-free to count its n terminal calls and then re-run 2n times: for EVERY k in 1..=n once with only call k failing and once with call k and all later calls failing (exhaustive in k up to 400 calls; the injected errors carry one of 7 io::ErrorKinds per history: Other, BrokenPipe, Interrupted, WouldBlock, TimedOut, WriteZero, UnexpectedEof); after each faulty run a probe battery (10 calls per bar, 3 on the MultiProgress, then drop) must not panic, io::Result-returning calls must have reported the error, getters must equal the fault-free model after every single operation and at the end; non-trivial = the history makes at least 4 terminal calls".into(),
        exhaustive: false,
    }
}
