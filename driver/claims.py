"""What each check claims (feeds MANIFEST.json)."""

SCREEN_NOTE = ("Trusted: the harness's VScreen terminal model (cross-checked against the vt100 crate at every flush; a "
               "disagreement makes the case inconclusive), the small shadow models, and the generators' reach. "
               "Histories are seeded random with boundary-biased texts; nothing outside them is covered.")

CLAIMS = {
    "C01": {
        "text": "Exploration: seeded random single-bar histories run against the real library on a spy terminal; at every flush the full screen (scrollback included) must equal printed lines + current frame row for row, and the cursor must be on a fresh line. Held on N executions, not a proof. Schedule lane: a steady-tick thread is parked by the delay hook in front of its K-th lock request (K 1..8), the bar is finished/abandoned, the program prints its next lines, the tick is released and the ticker joined: the finished frame must be on the screen once with the program's lines below it.",
        "design_ref": "DESIGN.md §4 C01",
        "note": SCREEN_NOTE,
        "technique": "runtime monitoring: lock-step reference model + terminal-emulator oracle at every flush",
    },
    "C02": {
        "text": "Exploration: seeded random MultiProgress histories (add/insert*/remove/tick/inc/set_message/finish*/drop/println/clear/suspend/set_alignment, 1-6 bars, rate-limited and unlimited targets) against a tag-based screen oracle evaluated at every flush: every live drawn member exactly once with a state it really had (never older than shown before), in logical order, below the log; nothing of removed/cleared bars; finished-and-dropped bars at most once. The schedule (multi-thread) part of the property is exercised by the C08/C07 stress lanes only as far as their monitors go; see level_note.",
        "design_ref": "DESIGN.md §4 C02",
        "note": SCREEN_NOTE + " Index-based inserts are normalised to 'append' once a member bar has been dropped (the statement does not define indices relative to not-yet-reaped bars). set_move_cursor(true) is excluded (documented to leave residue).",
        "technique": "runtime monitoring: tag-based terminal-emulator oracle + per-bar state-snapshot ranges at every flush",
    },
    "C03": {
        "text": "Exploration: the C01/C02 alphabets with println/suspend weight tripled, limiters exhausted on purpose (1-3 Hz targets, 21+ ticks at one virtual instant), every finish/drop order; at every flush every emitted log line must be on the screen exactly once, in emission order, above the live bars; each history ends with println+clear+println to reveal latent mis-accounting. Schedule lane: inside the closure of MultiProgress::suspend / ProgressBar::suspend (member, standalone) a second thread's inc/tick/set_message/println is let loose and given 0.5-4 ms; the closure's lines must be on the screen exactly once, above the bars. Limiter-exhausting bursts are generated in front of println/suspend/clear as well; a single-bar exhausted-limiter lane.",
        "design_ref": "DESIGN.md §4 C03",
        "note": SCREEN_NOTE,
        "technique": "runtime monitoring: exactly-once / in-order log oracle over the emulated screen at every flush",
    },
    "C04": {
        "text": "Exploration: histories with limiter-exhausting bursts directly before finish*/abandon*/finish_using_style/drop on 1-255 Hz targets, standalone and in a MultiProgress; monitors: a finishing call on a visible bar must flush at least once and that frame must show the final state; dropping a finished bar must cause zero terminal calls; visibly finished bars must stay on screen until println/clear/suspend/remove intervenes; getters must equal the model. Configuration lane: under set_move_cursor(true) a single member with fixed-size frames is finished in 8 ways; clearing variants must leave no bar row, visible ones the final frame exactly once.",
        "design_ref": "DESIGN.md §4 C04",
        "note": SCREEN_NOTE + " Iterator-driven completion is covered by C17's lanes.",
        "technique": "runtime monitoring: flush-presence + final-frame oracle on hooked virtual time",
    },
    "C19": {
        "text": "Exploration: every terminal size 1x1..12x8 (plus 20/40 columns x 2..6 rows with up to 12 bars), line widths at k*W-1, k*W, k*W+1, bars growing and shrinking past the terminal height; oracle: physical-row equality (single bar) / tag oracle (multi) with the longest-fitting-prefix rule, no live-bar row in the scrollback, omitted bars back as soon as they fit.",
        "design_ref": "DESIGN.md §4 C19",
        "note": SCREEN_NOTE + " The cursor rule is not evaluated for frames cut by the height.",
        "technique": "runtime monitoring: terminal-emulator oracle with scrollback on swept terminal sizes",
    },
    "C15": {
        "text": "Exploration with an exhaustive slice: every Display impl of the formatting wrappers is compared with an independent reference (integer arithmetic for grouping, units and durations; std's {:.N} for decimal rounding) on powers of 2/10 and unit boundaries +-2, boundary-biased and random-bit-pattern floats at precisions 0..=25, and every HumanDuration unit boundary / n+1/2 switch point +-{0,1ns,1ms} (that slice is enumerated completely); monotonicity of HumanDuration on sorted samples; every call under catch_unwind in release and debug (overflow checks) builds.",
        "design_ref": "DESIGN.md §4 C15",
        "note": "Trusted: the reference renderers in harness/src/props/c15.rs and std's float formatting. Byte formatters: above 2^53 the value's f64 image is accepted for the choice of unit and the last digit (the statement does not fix the arithmetic).",
        "technique": "runtime monitoring: differential oracle against an independent reference renderer, panics caught",
    },
    "C12": {
        "text": "Exploration with an exhaustive slice: '{msg:<align><W>[!]}' rendered through a real bar for W 0..=40 x 4 alignments x truncation on/off x 5 content classes (ascii, multi-byte 1-column, double-width, ANSI-coloured, combining marks) x shorter/exact/longer content (enumerated completely), then sampled widths up to 65535 and {wide_msg} lines on 1..120-column terminals; the field is measured in columns three independent ways (own ANSI stripper + unicode-width, console::measure_text_width, cursor column after feeding the text to VScreen) and compared with a column-based reference for padding side, kept range and exact width. Wide-neighbours lane: {wide_msg} next to padded fields whose widths add up to 0..140000 columns (around 255, 65535, 65536+w, 131072) on 4..65535-column terminals; the wide field must be exactly max(0, terminal - rest) columns. Content also travels through prefix and custom keys (including keys that shadow bar, pos, wide_bar, eta); {bar:W} fields with 1- and 2-column cells must be exactly W columns with the padding on the aligned side.",
        "design_ref": "DESIGN.md §4 C12",
        "note": "Trusted: the column reference in harness/src/props/c12.rs and the unicode-width tables. Double-width content: W-1 columns are accepted where exactly W cannot be kept; combining marks are compared on base characters.",
        "technique": "runtime monitoring: differential oracle on rendered fields measured in terminal columns",
    },
    "C10": {
        "text": "Exploration: (A) totality - grammar-generated templates, their single-character mutants and brace/colon/digit-biased random strings incl. arbitrary Unicode are parsed with with_template and template() under catch_unwind in release and debug builds: Ok or Err, never a panic; (B) fidelity - templates generated from an AST of the documented grammar (escaped braces adjacent to placeholders, '{'+whitespace literals, unknown keys, widths 0..65535 and beyond, alignment, '!', styles, 1-4 lines) are rendered through a real bar and the raw lines handed to the terminal must equal the AST's own rendering, line for line. The grammar includes one {wide_msg} anywhere in the template (reference: terminal width minus the rest of its line). Templates reach the bar freshly parsed or as pb.style().template(..), at tab widths 0/2/4/8.",
        "design_ref": "DESIGN.md §4 C10",
        "note": "Trusted: the AST renderer in harness/src/props/c10.rs (uses the C12 column reference for padded fields). A final empty template line may be present or absent; widths beyond u16::MAX must be rejected with Err.",
        "technique": "runtime monitoring: grammar-directed differential oracle + panic monitor",
    },
    "C13": {
        "text": "Exploration with an exhaustive slice: {bar:N} for every N 0..=64, every length 0..=64 and every position 0..=len+1 (plus unknown length) over 3 (quick) / all 18 (thorough) progress character sets of 2..10 clusters of 1 or 2 columns is rendered through a real bar and parsed back into filled / partial / background cells: cell count = floor(N/c), filled = floor(pos*cells/len) from exact rational arithmetic (neighbour accepted only within f32 noise of an integer), monotone in pos, 0 at pos 0, full iff pos >= len, partial cell only when neither empty nor full and always a configured character; sampled huge lengths/positions/widths; {wide_bar} lines must be exactly as wide as the terminal (within one cell) on terminals 1..300. The wide_bar lane includes a two-line message before or after the bar. Schedule lane: while a member with {wide_bar} is drawn, the MultiProgress is switched to a terminal of another width at every point where its state is not held (delay hook); each terminal must receive lines of exactly its own width.",
        "design_ref": "DESIGN.md §4 C13",
        "note": "Trusted: the cell parser and rational reference in harness/src/props/c13.rs. The exhaustive slice is complete for the stated ranges; everything beyond it is sampled.",
        "technique": "runtime monitoring: exhaustive-slice + sampled differential oracle on rendered bar cells",
    },
    "C14": {
        "text": "Exploration: sequences of 1-3 builder calls with boundary arguments (0/1/2/3/30 tick characters, 0/1/2/3/8 tick strings incl. empty ones, 0..10 progress clusters of equal/mixed/zero width, with_key, template); a panic inside the builder call is the accepted explicit rejection; every accepted style is asked for tick strings at tick values up to u64::MAX and drawn for 6 bar states x 4 terminal widths in release and debug builds; any panic after acceptance is a violation. A render that allocates without bound is reported by the resource watchdog as resource-blowup [memory]. State sweep: a style with all 28 documented keys is drawn after each of 1-12 operations of an extreme history on a virtual clock (lengths 0/1/2^63/u64::MAX/none, u64-extreme positions, steps nanoseconds to decades apart, resets, finish/abandon), time getters included. Terminal width 0 and a multi-line base template are part of the draw matrix.",
        "design_ref": "DESIGN.md §4 C14",
        "note": "Tick counts beyond a few dozen are reached through the public ProgressStyle::get_tick_str(idx), not by ticking 2^32 times.",
        "technique": "runtime monitoring: panic monitor separating build-time rejection from draw-time panics",
    },
    "C05": {
        "text": "Exploration on the virtual clock (no sleeping): arrival processes of 200-1500 requests with gaps from 0 ns bursts over k*interval+-{0,1,999999} ns to hours, for a seeded third of the rates (quick) / every rate 1..=255 (thorough), on term_like_with_hz and term_like spy targets, standalone and as the target of a MultiProgress with 1-3 bars. Monitors: sliding-window law count <= 20 + R*T + 1 over all pairs of ordinary frames (potential function, exact integer arithmetic); every ordinary request >= one interval after the last painted frame is painted; position updates obey burst 10 / 1 ms on an unlimited target; staleness <= interval + 1 ms after every position update on a limited target; every painted frame shows the latest pos/len/message; forced draws always paint. MultiProgress worlds also issue nested requests (update() whose closure lets virtual time pass and redraws a sibling bar), which reach the shared limiter with a stamp older than its last frame. An eighth of the messages span two or three rows, one of them empty.",
        "design_ref": "DESIGN.md §4 C05",
        "note": "Trusted: the verif-hooks Instant shim (virtual clock) and the frame/time log of the spy terminal. Frames triggered by MultiProgress::println are exempt from the 'latest state' rule (they re-render no bar).",
        "technique": "runtime monitoring: token-bucket trace laws checked over flush events on a virtual clock",
    },
    "C07": {
        "text": "Exploration: (a) 3-40-step sequential histories with boundary-biased u64 arguments, getters/fraction compared with a wrapping/saturating model after every step, in release and debug (overflow-checking) builds; (b) 2-16 OS threads x 1-3 clones x up to 100000 inc/dec calls each on one shared bar with hidden / unlimited / 20 Hz targets and an optional 1 ms steady ticker: conservation of the wrapping sum after join (no lost update) and no backwards read in inc-only runs. Concurrent length lane: 2-8 threads x 100-20000 inc_length/dec_length calls (optionally one unset_length); the final length is the initial one plus the sum of all deltas (or unknown); also in the Miri scenarios. finish_using_style with every ProgressFinish configured at construction, repeatedly; calls issued through clones and handles upgraded from WeakProgressBar.",
        "design_ref": "DESIGN.md §4 C07",
        "note": "Interleavings are whatever the OS scheduler produces on 16 cores (contention indicator in the evidence: reads that observed foreign updates) plus Miri's seeded preemptive scheduler with weak-memory emulation and data-race detection on tiny workloads (miri lane); no systematic schedule enumeration.",
        "technique": "runtime monitoring: shadow model for getters + conservation/monotonicity monitor over concurrent increments",
    },
    "C09": {
        "text": "Exploration on the virtual clock through the public getters only (per_sec, eta, duration, elapsed): four law families - steady progress at an exactly constant rate under log-uniform/tiny/fixed cadences from 1 ms to 10 days (relative error <= 1e-6); boundedness by the largest segment rate and stall behaviour queried at nine instants up to one hour (never above the bound, below 1% after 60 s, monotone decay); forgetting (H1; reset_eta|reset|rewind; H2 must equal a fresh bar fed H2 alone within 1e-9); corners (no progress, zero/unknown length, finished). eta = (len-pos)/per_sec and duration = elapsed+eta are checked at every query instant. The forget family covers reset_eta, reset, reset_elapsed and rewinding. An abandoned bar's rate must stay within the largest rate observed.",
        "design_ref": "DESIGN.md §4 C09",
        "note": "Laws, not a closed form (none exists for irregular cadences). Trusted: the virtual clock shim. The monotone-decay law is a recorded known finding (rises at the start of some stalls by design); the other stall laws are still evaluated in those histories.",
        "technique": "runtime monitoring: algebraic/metamorphic trace laws over getter values on a virtual clock",
    },
    "C11": {
        "text": "Exploration: a bar whose template holds every documented non-bar key (26), a custom ProgressTracker key and an unknown key on separate lines goes through 1-25 updates (positions incl. u64 extremes and pos > len, known/zero/unknown length, texts, ticks, reset, abandon; virtual time from 1 ms to days between operations) and is drawn once on a spy terminal; each raw line is compared with the getter read at the same frozen virtual instant passed through the public formatter (percent: either neighbour within f32 noise; spinner: tick string at the model's tick count, final string once finished); the custom tracker's tick/reset/write calls are logged and compared with the bar's state. Mid-draw lane: a custom key between 2-8 keys of the pos/len family lets a helper thread run inc/dec/set_position (lock-free) while the frame is being rendered; the frame must still describe one single position (with an unknown length, len = that position). A quarter of the bars start on a hidden target and receive the terminal through set_draw_target along the history.",
        "design_ref": "DESIGN.md §4 C11",
        "note": "The formatters themselves are C15's business; here they are the yardstick. {bar}/{wide_bar} are C13's. Tick counts beyond a few dozen are not reachable through the public API.",
        "technique": "runtime monitoring: per-key differential oracle (rendered text vs getters at a frozen virtual instant)",
    },
    "C16": {
        "text": "Exploration: builder calls (with_tab_width/with_style/with_message/with_prefix) in random order, then 1-6 of set_tab_width/set_style/set_message/set_prefix and a finishing message (explicit or through finish-on-drop behaviour), tab widths {0,1,2,8,13}, texts with up to 10 tabs, tabs in template literals and custom-key output, standalone and inside a MultiProgress; after every operation every string handed to write_str/write_line is scanned for TAB bytes, the forced frame must equal the model with every tab replaced by current-tab-width spaces, and message()/prefix() must return the expanded text. Concurrent lane: set_message/set_prefix/finish_with_message with a text whose Into<Cow<str>> conversion lets a second thread run set_tab_width inside the call; afterwards message()/prefix() and the frame must be expanded with the new width. Styles are installed fresh or as the bar's own style() with a new template. The custom key writes through write_str, write_char or write_fmt with a char argument.",
        "design_ref": "DESIGN.md §4 C16",
        "note": "println texts contain no tabs here: the statement is about bar lines.",
        "technique": "runtime monitoring: byte scan of the terminal call log + model comparison after every operation",
    },
    "C06": {
        "text": "Exploration: 2-30-step histories (incl. println, suspend, 1 ms steady tick, wrap_iter, every finish variant) applied in lock-step to a hidden bar and to a visible twin on a spy terminal; hidden kinds: hidden() target, member of MultiProgress::with_draw_target(hidden()), bar removed from a spy-backed MultiProgress (the spy's call counter must not move for any call on that bar or its drop), and - in child processes whose stdout and stderr are pipes, i.e. the real console::Term code path with is_term() == false - stderr(), stdout(), stderr_with_hz(60) targets and MultiProgress::new(); getters (position, length, message, prefix, is_finished) and return values are compared after every step; any byte on the children's pipes is a violation. The twin alphabet includes texts with tabs, set_tab_width, set_style, update, finish_using_style, reset_eta and reset_elapsed. Hidden kinds also include a live member of a visible MultiProgress handed to a hidden one and live bars given a hidden target through set_draw_target (the old terminal's call counter is watched).",
        "design_ref": "DESIGN.md §4 C06",
        "note": "Trusted: the OS pipe as byte counter; the visible twin as the reference for the logical state.",
        "technique": "runtime monitoring: silence monitor (terminal call counter / pipe byte count) + lock-step twin comparison",
    },
    "C18": {
        "text": "Fault enumeration: every base history (single-bar and MultiProgress alphabets incl. set_tab_width, suspend, println, finish, drop) is run fault-free to count its n terminal calls and then re-run for every k in 1..=n twice - only call k fails / call k and all later calls fail (exhaustive in k up to 400 calls); each faulty run is followed by a probe battery on every bar (tick, set_message, inc, println, suspend, set_tab_width, set_length, force_draw, clone+drop, finish), on the MultiProgress (println, clear, suspend) and by dropping everything; monitors: no panic anywhere (release and debug builds), io::Result-returning calls report an error that occurred inside them, getters equal the fault-free model. Half of the MultiProgress worlds run with set_move_cursor(true). A third of the histories end with a live bar changing its terminal (set_draw_target, add to a second MultiProgress, re-add to its own). The injected errors carry one of 7 io::ErrorKinds per history.",
        "design_ref": "DESIGN.md §4 C18",
        "note": "The fault index k is enumerated completely per history; the histories themselves are sampled. Faults are io::Error values returned by the spy terminal; partial writes are not modelled.",
        "technique": "runtime monitoring with fault injection at the TermLike boundary, exhaustive in the fault index",
    },
    "C17": {
        "text": "Exploration by twin comparison: every call on a wrapped scripted source/sink is mirrored on an identical bare twin; items, bytes, return values and error kinds must agree and position() must move by exactly what the call transferred (seek: equal the returned offset). Families: Read (read, read_vectored, read_exact, read_to_end; short reads, Interrupted, hard errors, zero-length, EOF), BufRead (fill_buf / partial consume / read_line / read interleaved), Write (write, write_vectored, write_all, flush), Seek (three modes, rewind, stream_position), Iterator/DoubleEnded/ExactSize (size_hint validity, every ProgressFinish on exhaustion), tokio AsyncRead/AsyncBufRead/AsyncWrite/AsyncSeek and futures Stream polled by hand with scripted Pending (no runtime), rayon pipelines (for_each, map+collect, zip, enumerate, rev, chunks, with_min_len, with_max_len, unindexed filter) on pools of 1-16 threads with 0-20000 items incl. a probe that the bar is not finished while items are still being processed. Short-circuiting rayon consumers (find_any/first/last, any, all, position_any, try_for_each, while_some, take_any, try_reduce; indexed and unindexed sources): the position must equal the count of an upstream counting stage. The Iterator family optionally runs a second pass over the reset bar. Seekable streams may be wrapped mid-way, the bar is occasionally moved from outside the adaptor, a quarter of the relative seeks have offset 0.",
        "design_ref": "DESIGN.md §4 C17",
        "note": "Separate binary vh-adapt (indicatif features rayon, tokio, futures). Erroring calls of the all-or-nothing std methods (read_exact, read_to_end) are exempt from the byte law. Rayon interleavings are whatever the pool produces.",
        "technique": "runtime monitoring: twin (differential) comparison at the adaptor boundary + conservation of the count",
    },
    "C08": {
        "text": "Exploration of schedules, with liveness restated as 'no provably permanent block': (1) stress lane - scenarios of 2-3 threads x 1-6 public calls on shared handles (with/without a running ticker, intervals 1 ms..1 h, hidden/visible/MultiProgress targets) run three times under seeded delay schedules injected by the verif-hooks shim between critical sections and in front of nested lock requests/joins; an online wait-for-graph watchdog (lock -> holder, join -> target) reports a cycle of untimed waits seen in two consecutive samples; an offline class-level lock-order graph (incl. join edges) flags inversions that did not manifest and tries to confirm them with 40 directed runs; every ticker thread started must have exited when the last handle is dropped; (2) ticker lifecycle lane - disable / replace / drop-last-handle / finish / manual-tick-is-inert for every interval: the call returns only after the old ticker's ThreadExit, no frame from the ticker thread after finish()/disable returns, the ticker redraws without manual ticks, a joiner stuck on a ticker in an hour-long timed wait is a lost wake-up; (3) Miri lane - tiny 2-3-thread workloads under Miri's seeded preemptive scheduler with its deadlock detector.",
        "design_ref": "DESIGN.md §4 C08",
        "note": "Interleavings come from OS scheduling + injected delays + Miri's scheduler, not from systematic enumeration; hour-long intervals are exercised by their logical effect (timed wait still pending when the stop is requested). A watchdog expiry without a provable cycle is inconclusive, never a violation. 'Stops when finished' is read as: no further redraw and exit no later than the next wake-up or the last drop.",
        "technique": "runtime monitoring: wait-for-graph watchdog + lock-order (Goodlock-style) analysis over hooked lock/thread events, ticker trace properties, Miri deadlock detection",
    },
}

ALL = [f"C{n:02d}" for n in range(1, 20)]
NOT_APPLICABLE = {p: "check not built yet in this round (work in progress; see DESIGN.md)" for p in ALL if p not in CLAIMS}
