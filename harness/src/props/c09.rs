//! C09: rate and ETA estimator laws, through the public API on the virtual clock.

use super::{PropResult, RunCfg};
use crate::json::J;
use crate::prng::{fnv1a, Rng};
use crate::report::{run_parallel, workers, CaseOut, Verdict, Violation};
use crate::world::install_session;
use indicatif::{ProgressBar, ProgressDrawTarget};
use std::sync::atomic::{AtomicU64, Ordering};
use std::sync::Arc;
use std::time::Duration;

const MS: u64 = 1_000_000;

fn viol(rule: &str, feats: Vec<String>, detail: String, w: J, replay: String) -> Verdict {
    Verdict::Violated(Box::new(Violation { rule: rule.into(), features: feats, detail, witness: w, replay }))
}

struct Drv {
    clock: Arc<AtomicU64>,
    pb: ProgressBar,
    /// positions are set through `update(|s| s.set_pos(..))` (one call: state change, then the estimator's sample)
    via_update: bool,
}

impl Drv {
    fn new(len: Option<u64>) -> Self {
        let clock = Arc::new(AtomicU64::new(7_000_000_000));
        install_session(&clock);
        let pb = ProgressBar::with_draw_target(len, ProgressDrawTarget::hidden());
        Self { clock, pb, via_update: false }
    }
    fn advance(&self, ns: u64) {
        self.clock.fetch_add(ns, Ordering::SeqCst);
    }
    fn update(&self, pos: u64) {
        if self.via_update {
            self.pb.update(|s| s.set_pos(pos));
            return;
        }
        self.pb.set_position(pos);
        self.pb.tick(); // make sure the estimator saw this instant even if the update was throttled
    }
}

/// log-uniform gap between 1 ms and 10 days, multiple of 1 ms
fn gap_ms(rng: &mut Rng) -> u64 {
    let e = rng.f64() * (864_000_000f64).ln();
    (e.exp() as u64).clamp(1, 864_000_000)
}

fn rel(a: f64, b: f64) -> f64 {
    if a == b {
        0.0
    } else {
        (a - b).abs() / a.abs().max(b.abs()).max(f64::MIN_POSITIVE)
    }
}

fn secs_to_duration_ref(s: f64) -> Duration {
    let secs = s.trunc() as u64;
    let nanos = (s.fract() * 1_000_000_000f64) as u32;
    Duration::new(secs, nanos.min(999_999_999))
}

/// eta / duration consistency at the current frozen instant.
fn check_eta(d: &Drv, len: Option<u64>, finished: bool, feats: &[String], w: &J, replay: &str) -> Result<(), Verdict> {
    let (ps, eta, dur, el, pos) = (d.pb.per_sec(), d.pb.eta(), d.pb.duration(), d.pb.elapsed(), d.pb.position());
    let f = feats.to_vec();
    let want_eta = if finished || len.is_none() || ps == 0.0 {
        Duration::ZERO
    } else {
        secs_to_duration_ref(len.unwrap().saturating_sub(pos) as f64 / ps)
    };
    let diff = if eta > want_eta { eta - want_eta } else { want_eta - eta };
    let tol = Duration::from_nanos(1).max(Duration::from_secs_f64((want_eta.as_secs_f64() * 1e-12).min(1e9)));
    if diff > tol && !finished {
        return Err(viol("eta-not-remaining-over-rate", f, format!("eta() = {eta:?}, (len - pos)/per_sec = {want_eta:?} (pos {pos}, len {len:?}, per_sec {ps})"), w.clone(), replay.to_string()));
    }
    if finished && eta != Duration::ZERO {
        return Err(viol("eta-not-zero-when-finished", f, format!("eta() = {eta:?} on a finished bar"), w.clone(), replay.to_string()));
    }
    let want_dur = if len.is_none() || finished { Duration::ZERO } else { el.saturating_add(eta) };
    if dur != want_dur {
        return Err(viol("duration-not-elapsed-plus-eta", f, format!("duration() = {dur:?}, elapsed + eta = {want_dur:?}"), w.clone(), replay.to_string()));
    }
    Ok(())
}

fn finite_nonneg(d: &Drv, what: &str, feats: &[String], w: &J, replay: &str) -> Result<f64, Verdict> {
    let ps = d.pb.per_sec();
    if !ps.is_finite() || ps < 0.0 {
        return Err(viol("rate-not-finite-non-negative", feats.to_vec(), format!("per_sec() = {ps} {what}"), w.clone(), replay.to_string()));
    }
    let eta = d.pb.eta().as_secs_f64();
    if !eta.is_finite() || eta < 0.0 {
        return Err(viol("eta-not-finite", feats.to_vec(), format!("eta() = {eta} {what}"), w.clone(), replay.to_string()));
    }
    Ok(ps)
}

#[derive(Clone, Debug)]
struct Seg {
    gap_ms: u64,
    steps: u64,
}

fn gen_segments(rng: &mut Rng, n: usize) -> Vec<Seg> {
    let scale = 10f64.powf(rng.f64() * 12.0); // steps per ms over many orders of magnitude
    (0..n)
        .map(|_| {
            let g = gap_ms(rng);
            let r = scale * (0.1 + 3.0 * rng.f64());
            let steps = ((g as f64 * r / 1000.0) as u64).clamp(1, 1 << 50);
            Seg { gap_ms: g, steps }
        })
        .collect()
}

fn feed(d: &Drv, segs: &[Seg], start_pos: u64) -> u64 {
    let mut pos = start_pos;
    for s in segs {
        d.advance(s.gap_ms * MS);
        pos = pos.saturating_add(s.steps);
        d.update(pos);
    }
    pos
}

fn max_seg_rate(segs: &[Seg]) -> f64 {
    segs.iter().map(|s| s.steps as f64 / (s.gap_ms as f64 / 1000.0)).fold(0.0, f64::max)
}

fn run_case(seed: u64, idx: u64) -> CaseOut {
    let mut rng = Rng::derive(seed, 9, idx);
    let replay = format!("{seed}:{idx}");
    let kind = idx % 4;
    let mut co = CaseOut::held(fnv1a(format!("{seed}:{idx}:{kind}").as_bytes()), true);
    let res: Result<(), Verdict> = (|| {
        match kind {
            // ---- steady progress at any cadence ------------------------------------------------------
            0 => {
                let per_ms = 10u64.pow(rng.range(0, 9) as u32) * rng.range(1, 9); // steps per millisecond
                let n = rng.range(1, 400) as usize;
                let mut d = Drv::new(Some(u64::MAX));
                // a bar may be told that it has been running for a while (with_elapsed): time that passed before
                // it existed is not time without progress
                if rng.chance(1, 4) {
                    let secs = *rng.pick(&[1u64, 60, 3_600, 86_400]);
                    d.pb = ProgressBar::with_draw_target(Some(u64::MAX), ProgressDrawTarget::hidden()).with_elapsed(std::time::Duration::from_secs(secs));
                }
                d.via_update = rng.chance(1, 4);
                // a bar whose steady ticker was switched on and off again is an ordinary manually driven bar
                if rng.chance(1, 5) {
                    d.pb.enable_steady_tick(Duration::from_secs(rng.range(1, 7200)));
                    d.pb.disable_steady_tick();
                }
                // optionally start far up the u64 range (f64 cannot represent neighbouring positions
                // there): seek to the base, forget it, then progress steadily in small steps
                let base: u64 = match rng.below(4) {
                    0 => (1u64 << 53) + rng.range(0, 1 << 20),
                    1 => (1u64 << rng.range(54, 63)) + rng.range(0, 4096),
                    _ => 0,
                };
                let per_ms = if base > 0 && rng.chance(2, 3) { rng.range(1, 9) } else { per_ms };
                if base > 0 {
                    d.advance(rng.range(1, 500) * MS);
                    d.update(base);
                    d.advance(rng.range(1, 500) * MS);
                    d.pb.reset_eta();
                }
                let mut pos = base;
                let mut gaps = Vec::new();
                let cadence = rng.below(3);
                for _ in 0..n {
                    let g = match cadence {
                        0 => gap_ms(&mut rng),
                        1 => rng.range(1, 50),
                        _ => *rng.pick(&[1u64, 1000, 15_000, 60_000, 86_400_000]),
                    };
                    gaps.push(g);
                    d.advance(g * MS);
                    pos = pos.saturating_add(g.saturating_mul(per_ms));
                    if pos == u64::MAX {
                        break;
                    }
                    d.update(pos);
                }
                let truth = per_ms as f64 * 1000.0;
                let w = J::obj().with("kind", "steady").with("base_position", base).with("steps_per_ms", per_ms).with("updates", gaps.len()).with("first_gaps_ms", gaps.iter().take(8).copied().collect::<Vec<_>>());
                let feats = vec!["steady".to_string(), if base > 0 { "position-above-2^53".to_string() } else { "small-position".to_string() }];
                let ps = finite_nonneg(&d, "after steady progress", &feats, &w, &replay)?;
                if rel(ps, truth) > 1e-6 && pos != u64::MAX {
                    return Err(viol("steady-rate-wrong", feats, format!("per_sec() = {ps} after {} updates at exactly {truth} steps/s", gaps.len()), w, replay.clone()));
                }
                check_eta(&d, Some(u64::MAX), false, &feats, &w, &replay)?;
                co.count("steady_histories", 1);
            }
            // ---- bounds + stall decay -------------------------------------------------------------------
            1 => {
                let n = rng.range(1, 60) as usize;
                let segs = gen_segments(&mut rng, n);
                let d = Drv::new(Some(1 << 62));
                feed(&d, &segs, 0);
                let w = J::obj().with("kind", "bounds+stall").with("segments", J::Arr(segs.iter().take(10).map(|s| J::from(format!("{}ms:+{}", s.gap_ms, s.steps))).collect()));
                let at_update = finite_nonneg(&d, "right after an update", &["bounded".to_string()], &w, &replay)?;
                let maxr = max_seg_rate(&segs);
                if at_update > maxr * (1.0 + 1e-9) {
                    return Err(viol("rate-above-largest-observed", vec!["bounded".into()], format!("per_sec() = {at_update}, largest segment rate {maxr}"), w, replay.clone()));
                }
                let last = segs.last().unwrap();
                let last_rate = last.steps as f64 / (last.gap_ms as f64 / 1000.0);
                let accel = last_rate > at_update * (1.0 + 1e-9);
                let feats = vec![if accel { "stall-after-acceleration".to_string() } else { "stall-after-steady-or-slowdown".to_string() }];
                let mut prev = at_update;
                let mut t = 0u64;
                let mut pending: Option<Verdict> = None;
                for step_ms in [1u64, 10, 100, 900, 4_000, 10_000, 15_000, 30_000, 3_600_000] {
                    d.advance(step_ms * MS);
                    t += step_ms;
                    let ps = finite_nonneg(&d, "during a stall", &feats, &w, &replay)?;
                    if ps > prev * (1.0 + 1e-12) && pending.is_none() {
                        // remembered, not final: the other stall laws are still evaluated
                        pending = Some(viol("stall-rate-increased", feats.clone(), format!("per_sec() rose from {prev} to {ps} after {t} ms without progress"), w.clone(), replay.clone()));
                    }
                    if ps > maxr * (1.0 + 1e-9) {
                        return Err(viol("rate-above-largest-observed", feats, format!("per_sec() = {ps} during a stall, largest segment rate {maxr}"), w, replay.clone()));
                    }
                    if t >= 60_000 && ps > at_update * 0.01 {
                        return Err(viol("stall-decay-too-slow", feats, format!("per_sec() = {ps} after {t} ms of stall, was {at_update}"), w, replay.clone()));
                    }
                    check_eta(&d, Some(1 << 62), false, &feats, &w, &replay)?;
                    prev = ps;
                }
                co.count("stall_histories", 1);
                if let Some(v) = pending {
                    return Err(v);
                }
            }
            // ---- forgetting: reset_eta / reset / rewind ------------------------------------------------
            2 => {
                // one history in five has nothing recorded before the reset (the bar only sat idle): the reset still has
                // to move the time origin (round 11: "nothing recorded since the last reset, nothing to do")
                let n1 = if rng.chance(1, 5) { 0 } else { rng.range(1, 30) as usize };
                let h1 = gen_segments(&mut rng, n1);
                let n2 = rng.range(1, 30) as usize;
                let h2 = gen_segments(&mut rng, n2);
                let how = if n1 == 0 { [0, 1, 3][rng.usize(3)] } else { rng.below(4) };
                let again = how != 2 && rng.chance(1, 4);
                let d = Drv::new(Some(1 << 62));
                let p1 = feed(&d, &h1, 0);
                d.advance(gap_ms(&mut rng) * MS);
                if again {
                    // the same reset twice, idle time in between: the second one counts
                    match how {
                        0 => d.pb.reset_eta(),
                        1 => d.pb.reset(),
                        _ => d.pb.reset_elapsed(),
                    }
                    d.advance((1 + gap_ms(&mut rng)) * MS);
                }
                let (name, base) = match how {
                    0 => {
                        d.pb.reset_eta();
                        ("reset_eta", p1)
                    }
                    1 => {
                        d.pb.reset();
                        ("reset", 0)
                    }
                    // ("Resets elapsed time and the ETA calculation")
                    3 => {
                        d.pb.reset_elapsed();
                        ("reset_elapsed", p1)
                    }
                    _ => {
                        let back = p1 / 2;
                        d.update(back);
                        ("rewind", back)
                    }
                };
                let reset_at = d.clock.load(Ordering::SeqCst);
                feed(&d, &h2, base);
                let q = rng.range(0, 20_000);
                d.advance(q * MS);
                let w = J::obj().with("kind", "forget").with("event", name).with("h1_segments", h1.len()).with("h2", J::Arr(h2.iter().take(10).map(|s| J::from(format!("{}ms:+{}", s.gap_ms, s.steps))).collect()));
                let feats = vec![name.to_string()];
                let got = finite_nonneg(&d, "after a reset", &feats, &w, &replay)?;
                // twin: a fresh bar created at the reset instant, fed H2 alone
                let end = d.clock.load(Ordering::SeqCst);
                let twin = Drv::new(Some(1 << 62));
                twin.clock.store(reset_at, Ordering::SeqCst);
                // (the estimator works on position differences, so the twin simply starts at 0)
                let fresh = ProgressBar::with_draw_target(Some(1 << 62), ProgressDrawTarget::hidden());
                let twin = Drv { clock: twin.clock, pb: fresh, via_update: false };
                feed(&twin, &h2, 0);
                twin.clock.store(end, Ordering::SeqCst);
                let want = twin.pb.per_sec();
                if rel(got, want) > 1e-9 {
                    return Err(viol(
                        "history-before-reset-leaks",
                        feats,
                        format!("per_sec() = {got} after H1; {name}; H2 but a fresh bar fed H2 alone reports {want}"),
                        w,
                        replay.clone(),
                    ));
                }
                co.count("forget_histories", 1);
            }
            // ---- degenerate corners ---------------------------------------------------------------------
            _ => {
                let len = match rng.below(3) {
                    0 => None,
                    1 => Some(0),
                    _ => Some(rng.range(1, 1000)),
                };
                let d = Drv::new(len);
                let w = J::obj().with("kind", "corners").with("len", len);
                let feats = vec!["corner".to_string()];
                // strictly after creation, no progress at all
                d.advance(rng.range(1, 5_000) * MS);
                let ps = finite_nonneg(&d, "without any progress", &feats, &w, &replay)?;
                if ps != 0.0 {
                    return Err(viol("rate-without-progress", feats, format!("per_sec() = {ps} although nothing happened"), w, replay.clone()));
                }
                check_eta(&d, len, false, &feats, &w, &replay)?;
                let n = rng.range(1, 10) as usize;
                let segs = gen_segments(&mut rng, n);
                feed(&d, &segs, 0);
                finite_nonneg(&d, "after progress", &feats, &w, &replay)?;
                check_eta(&d, len, false, &feats, &w, &replay)?;
                d.advance(rng.range(1, 100) * MS);
                let abandoned = rng.chance(1, 2);
                if abandoned {
                    d.pb.abandon();
                } else {
                    d.pb.finish();
                }
                d.advance(rng.range(1, 100) * MS);
                let ps = finite_nonneg(&d, "after finishing", &feats, &w, &replay)?;
                check_eta(&d, len, true, &feats, &w, &replay)?;
                // an abandoned bar has seen nothing but the recorded steps: its rate stays within the largest
                // rate observed (after finish() the position jumps to the length, which is a step of its own)
                let max_rate = segs.iter().map(|sg| sg.steps as f64 * 1000.0 / sg.gap_ms.max(1) as f64).fold(0.0f64, f64::max);
                if abandoned && ps > max_rate * (1.0 + 1e-9) {
                    return Err(viol(
                        "rate-above-largest-observed",
                        feats,
                        format!("per_sec() = {ps} on an abandoned bar at position {} of {len:?} after {:?}: the largest rate ever observed was {max_rate}", d.pb.position(), d.pb.elapsed()),
                        w,
                        replay.clone(),
                    ));
                }
                co.count("corner_histories", 1);
            }
        }
        Ok(())
    })();
    if let Err(v) = res {
        co.verdict = v;
    }
    co.see("law_families", kind);
    if idx < 4 {
        co.sample = Some(J::obj().with("family", ["steady", "bounds+stall", "forget", "corners"][kind as usize]).with("index", idx));
    }
    indicatif::verif_hooks::install(None);
    co
}

// ---- reset race lane ---------------------------------------------------------------------------------
// reset_eta / reset / reset_elapsed take effect at the instant they get hold of the bar, not at the instant
// they were called: progress recorded by another thread while the resetting thread waits for the bar's lock
// is "before the reset". The delay hook parks the resetting thread in front of its lock request while a
// worker advances the (virtual) clock and the bar; afterwards steady progress H2 must be reported exactly
// as a fresh bar fed H2 alone reports it.

fn reset_race_case(seed: u64, idx: u64) -> CaseOut {
    use indicatif::verif_hooks as vh;
    use std::sync::atomic::AtomicBool;
    use std::sync::mpsc;
    let mut rng = Rng::derive(seed, 909, idx);
    let replay = format!("r{seed}:{idx}");
    let which = rng.below(3);
    let name = ["reset_eta", "reset", "reset_elapsed"][which as usize];
    let clock = Arc::new(AtomicU64::new(7_000_000_000));
    let armed = Arc::new(AtomicBool::new(false));
    let done = Arc::new(AtomicBool::new(false));
    let (tx, rx) = mpsc::channel::<()>();
    let tx = std::sync::Mutex::new(Some(tx));
    let (a2, d2) = (armed.clone(), done.clone());
    let session = vh::Session::new(
        Some(clock.clone()),
        false,
        Some(Box::new(move |p: &vh::DelayPoint| {
            if p.thread != 0 || !matches!(p.kind, vh::DelayKind::BeforeRequest) || !a2.swap(false, Ordering::SeqCst) {
                return;
            }
            if let Some(tx) = tx.lock().unwrap().take() {
                let _ = tx.send(());
                let t0 = std::time::Instant::now();
                while !d2.load(Ordering::SeqCst) && t0.elapsed().as_millis() < 2_000 {
                    std::thread::yield_now();
                }
            }
        })),
    );
    vh::install(Some(session.clone()));
    let pb = ProgressBar::with_draw_target(Some(1 << 62), ProgressDrawTarget::hidden());
    let d = Drv { clock: clock.clone(), pb: pb.clone(), via_update: false };
    let (n1, n2, n3) = (rng.range(1, 10) as usize, rng.range(1, 6) as usize, rng.range(2, 20) as usize);
    let h1 = gen_segments(&mut rng, n1);
    let during = gen_segments(&mut rng, n2);
    let h2 = gen_segments(&mut rng, n3);
    let mut co = CaseOut::held(fnv1a(format!("race{which}{idx}").as_bytes()), true);
    let w = J::obj().with("kind", "reset-race").with("call", name).with("updates_by_the_other_thread_during_the_call", during.len()).with("h2_segments", h2.len());
    let feats = vec![name.to_string(), "reset-race".to_string()];
    let p1 = feed(&d, &h1, 0);
    // the worker shares the session (virtual clock) and moves the bar while the reset waits for the lock
    let (wpb, wclock, wsess, wdone) = (pb.clone(), clock.clone(), session.clone(), done.clone());
    let segs: Vec<(u64, u64)> = during.iter().map(|s| (s.gap_ms, s.steps)).collect();
    let worker = std::thread::spawn(move || {
        vh::install(Some(wsess));
        if rx.recv().is_ok() {
            let mut pos = p1;
            for (gap, steps) in segs {
                wclock.fetch_add(gap * MS, Ordering::SeqCst);
                pos = pos.saturating_add(steps);
                wpb.set_position(pos);
                wpb.tick();
            }
            wdone.store(true, Ordering::SeqCst);
        }
        vh::install(None);
    });
    d.advance(gap_ms(&mut rng) * MS);
    armed.store(true, Ordering::SeqCst);
    match which {
        0 => pb.reset_eta(),
        1 => pb.reset(),
        _ => pb.reset_elapsed(),
    }
    armed.store(false, Ordering::SeqCst);
    let injected = done.load(Ordering::SeqCst);
    // release a worker that was never signalled, then wait for it
    drop(session);
    vh::install(None);
    let _ = worker.join();
    install_session(&clock);
    let res: Result<(), Verdict> = (|| {
        if !injected {
            co.nontrivial = false;
            return Ok(());
        }
        let reset_at = clock.load(Ordering::SeqCst);
        let base = pb.position();
        feed(&d, &h2, base);
        d.advance(rng.range(0, 5_000) * MS);
        let got = finite_nonneg(&d, "after a reset that raced with progress", &feats, &w, &replay)?;
        let end = clock.load(Ordering::SeqCst);
        // twin: a fresh bar created at the instant the reset took effect, fed H2 alone
        let tclock = Arc::new(AtomicU64::new(reset_at));
        install_session(&tclock);
        let fresh = ProgressBar::with_draw_target(Some(1 << 62), ProgressDrawTarget::hidden());
        let twin = Drv { clock: tclock.clone(), pb: fresh, via_update: false };
        feed(&twin, &h2, 0);
        tclock.store(end, Ordering::SeqCst);
        let want = twin.pb.per_sec();
        if rel(got, want) > 1e-9 {
            return Err(viol(
                "history-before-reset-leaks",
                feats.clone(),
                format!("{name}() was called, another thread recorded {} more updates while it waited for the bar, then H2 followed: per_sec() = {got}, a fresh bar fed H2 alone reports {want}", during.len()),
                w.clone(),
                replay.clone(),
            ));
        }
        Ok(())
    })();
    if let Err(v) = res {
        co.verdict = v;
    }
    indicatif::verif_hooks::install(None);
    co.count("reset_races_injected", injected as u64);
    co
}


/// Steady-tick lane: with a steady ticker installed the ticker thread is the only one that feeds the estimator
/// (manual updates no longer tick). The harness moves the virtual clock and the position in lock-step at an
/// exactly constant rate and, after every step, gives the ticker (1 ms real interval) the time for two full
/// ticks - real time is only ever waited for, never judged. The rate read afterwards must be the true rate,
/// and must not grow while the bar then stalls.
fn ticker_fed_case(seed: u64, idx: u64) -> CaseOut {
    let mut rng = Rng::derive(seed, 909, idx);
    let replay = format!("k{seed}:{idx}");
    let per_ms = rng.range(1, 5000);
    let n = rng.range(3, 12) as usize;
    let gaps: Vec<u64> = (0..n).map(|_| if rng.chance(1, 2) { rng.range(1, 2_000) } else { gap_ms(&mut rng).min(3_600_000) }).collect();
    let w = J::obj().with("steps_per_ms", per_ms).with("gaps_ms", J::from(gaps.clone())).with("steady_tick_ms", 1u64);
    let feats = vec!["steady-tick".to_string()];
    let mut co = CaseOut::held(fnv1a(format!("k{seed}:{idx}").as_bytes()), true);
    let clock = Arc::new(AtomicU64::new(7_000_000_000));
    install_session(&clock);
    let draws = Arc::new(AtomicU64::new(0));
    let d2 = draws.clone();
    let spy = crate::spy::SpyTerm::new(80, 10, false);
    spy.state().snap_on_flush = false;
    let pb = ProgressBar::with_draw_target(Some(u64::MAX), ProgressDrawTarget::term_like(spy.boxed()));
    pb.set_style(indicatif::ProgressStyle::with_template("{pos} {c}").unwrap().with_key("c", move |_: &indicatif::ProgressState, _: &mut dyn std::fmt::Write| {
        d2.fetch_add(1, Ordering::SeqCst);
    }));
    pb.enable_steady_tick(Duration::from_millis(1));
    let two_ticks = || {
        let d0 = draws.load(Ordering::SeqCst);
        let t0 = std::time::Instant::now();
        while draws.load(Ordering::SeqCst) < d0 + 2 {
            if t0.elapsed() > Duration::from_secs(3) {
                return false;
            }
            std::thread::sleep(Duration::from_micros(300));
        }
        true
    };
    let res: Result<(), Verdict> = (|| {
        let mut pos = 0u64;
        let stuck = || Verdict::Inconclusive("the ticker thread did not tick twice within 3 s".into());
        if !two_ticks() {
            return Err(stuck());
        }
        for g in &gaps {
            clock.fetch_add(g * MS, Ordering::SeqCst);
            pos += g * per_ms;
            pb.set_position(pos);
            if !two_ticks() {
                return Err(stuck());
            }
        }
        let got = pb.per_sec();
        let want = per_ms as f64 * 1000.0;
        if !got.is_finite() || rel(got, want) > 1e-6 {
            return Err(viol("steady-rate-wrong", feats.clone(), format!("a bar driven by a steady ticker progressed at exactly {want} steps/s over {n} steps; per_sec() = {got}"), w.clone(), replay.clone()));
        }
        // stall: time passes, nothing happens
        let mut prev = got;
        for _ in 0..3 {
            clock.fetch_add(rng.range(1, 30_000) * MS, Ordering::SeqCst);
            if !two_ticks() {
                return Err(stuck());
            }
            let r = pb.per_sec();
            if !r.is_finite() || r < 0.0 || r > prev * (1.0 + 1e-9) {
                return Err(viol("ticker-stall-rate-increased", feats.clone(), format!("steady-ticked bar stalls: per_sec() went from {prev} to {r}"), w.clone(), replay.clone()));
            }
            prev = r;
        }
        Ok(())
    })();
    pb.disable_steady_tick();
    pb.abandon();
    if let Err(v) = res {
        co.verdict = v;
    }
    indicatif::verif_hooks::install(None);
    co.count("ticker_fed_samples", n as u64);
    co.count("ticker_draws", draws.load(Ordering::SeqCst));
    co
}

pub fn run(cfg: &RunCfg) -> PropResult {
    let report = if let Some(case) = &cfg.case {
        let race = case.starts_with('r');
        let tick = case.starts_with('k');
        let mut it = case.trim_start_matches(['r', 'k']).split(':');
        let seed: u64 = it.next().and_then(|s| s.parse().ok()).unwrap_or(cfg.seed);
        let idx: u64 = it.next().and_then(|s| s.parse().ok()).unwrap_or(0);
        let mut r = crate::report::Report::default();
        r.add(idx, if tick { ticker_fed_case(seed, idx) } else if race { reset_race_case(seed, idx) } else { run_case(seed, idx) });
        r
    } else {
        let n = if cfg.thorough { 40_000_000 } else { 1_000_000 };
        let mut r = run_parallel(n, workers(), |i| run_case(cfg.seed, i));
        let nr = if cfg.thorough { 100_000 } else { 3_000 };
        r.merge(crate::report::run_parallel_tagged('r', nr, workers(), |i| reset_race_case(cfg.seed, i)));
        let nk = if cfg.thorough { 40_000 } else { 1_200 };
        r.merge(crate::report::run_parallel_tagged('k', nk, workers(), |i| ticker_fed_case(cfg.seed, i)));
        r
    };
    PropResult {
        report,
        rule: "four law families in rotation: (steady) 1-400 updates at an exactly constant rate of 1..9e8 steps/ms with log-uniform / tiny / fixed gaps between 1 ms and 10 days; (bounds+stall) 1-60 segments at rates spread over 12 orders of magnitude, then a stall queried at 9 instants up to 1 h; (forget) H1; reset_eta|reset|reset_elapsed|rewind; H2 compared with a fresh bar fed H2 alone; (reset race) reset_eta/reset/reset_elapsed parked by the delay hook in front of the bar's lock while another thread advances the clock and the bar, then H2 compared with a fresh bar; (corners) no progress, zero/unknown length, finished bars; every getter read on a frozen virtual instant; all evaluations are distinct (own PRNG stream) and non-trivial".into(),
        exhaustive: false,
    }
}
