#!/bin/bash
# usage: try_scratch.sh <patch> [IDs...]   Like try_benign.sh, but the scratch copy of /verif under /tmp/bx is
# created once and then left alone, so that harness sources can be edited THERE (e.g. while a long run
# builds from /verif); `try_scratch.sh --back` copies the edited harness sources back to /verif.
BX=${BX:-/tmp/bx}
if [ "$1" = "--back" ]; then
  rsync -a $BX/verif/harness/src/ /verif/harness/src/; rsync -a $BX/verif/harness-adapt/src/ /verif/harness-adapt/src/; rsync -a $BX/verif/miri/src/ /verif/miri/src/
  exit 0
fi
patch=$(realpath "$1"); shift
ids=${@:-C01}
mkdir -p $BX
if [ ! -d $BX/repo ]; then git -C /repo worktree add -q --detach $BX/repo HEAD || exit 2; fi
git -C $BX/repo checkout -q --detach $(git -C /repo rev-parse HEAD); git -C $BX/repo checkout -- .
if [ ! -d $BX/verif ]; then
  rsync -a --exclude target --exclude results --exclude replays --exclude .git /verif/ $BX/verif/
  mkdir -p $BX/verif/results $BX/verif/replays
  sed -i "s|path = \"/repo\"|path = \"$BX/repo\"|" $BX/verif/harness/Cargo.toml $BX/verif/harness-adapt/Cargo.toml $BX/verif/miri/Cargo.toml
  sed -i "s|/verif/target|$BX/verif/target|" $BX/verif/.cargo/config.toml
fi
if [ "$patch" != "/dev/null" ]; then git -C $BX/repo apply "$patch" || { echo "PATCH DOES NOT APPLY"; exit 3; }; fi
cd $BX/verif
for id in $ids; do ./check $id 2>&1 | grep -E "^(OK|VIOLATION|INCONCLUSIVE|  signature|error)" | cut -c1-220 | head -4; done
git -C $BX/repo checkout -- .
