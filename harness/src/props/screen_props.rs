//! C01, C02, C03, C04, C19: screen-oracle properties.

use super::{PropResult, RunCfg};
use crate::gen::GenOpts;
use crate::report::{run_parallel, workers};
use crate::screen::{run_case, Judged, ScreenProp};

fn any_rule(rules: &'static [&'static str]) -> Box<crate::screen::Judge> {
    Box::new(move |_cfg, _ops, out| {
        out.fail.as_ref().and_then(|f| {
            rules.contains(&f.rule).then(|| Judged { rule: f.rule, detail: f.detail.clone() })
        })
    })
}

pub const SINGLE_RULES: &[&str] = &[
    "log-missing", "row-duplicated", "residue-row", "frame-row-missing", "blank-row", "blank-row-missing", "row-order",
    "cursor-not-fresh-line", "bar-row-in-scrollback", "panic",
];

pub fn prop(id: &str) -> (ScreenProp, u64, u64) {
    match id {
        "C01" => {
            let mut wide = GenOpts::single();
            wide.wide = true;
            wide.widths = (2..=40).collect();
            (
                ScreenProp {
                    id: "C01",
                    opts: vec![("single-bar", GenOpts::single(), 9), ("single-bar-wide-chars", wide, 1)],
                    judge: any_rule(SINGLE_RULES),
                    check_cursor: true,
                },
                20_000,
                2_000_000,
            )
        }
        _ => unreachable!(),
    }
}

pub fn run(id: &str, cfg: &RunCfg) -> PropResult {
    let (p, quick, thorough) = prop(id);
    let report = if let Some(case) = &cfg.case {
        let mut it = case.split(':');
        let seed: u64 = it.next().and_then(|s| s.parse().ok()).unwrap_or(cfg.seed);
        let idx: u64 = it.next().and_then(|s| s.parse().ok()).unwrap_or(0);
        let mut r = crate::report::Report::default();
        r.add(idx, run_case(&p, seed, idx, None));
        r
    } else {
        let n = if cfg.thorough { thorough } else { quick };
        run_parallel(n, workers(), |i| run_case(&p, cfg.seed, i, None))
    };
    PropResult {
        report,
        rule: "seeded random operation histories (boundary-biased texts around multiples of the terminal width) executed against the real library on a spy terminal; a case is non-trivial when >= 2 flushed frames were checked and it contains >= 1 log line or >= 1 shrinking frame; distinct = distinct (configuration, op list) hashes".into(),
        exhaustive: false,
    }
}
