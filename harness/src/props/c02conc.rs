//! C02, schedule part: bars of one MultiProgress updated concurrently from several threads.
//! Every state change carries a per-bar sequence number that is published in an atomic *before*
//! the call is made; the spy terminal samples those atomics inside every flush (which runs under
//! the MultiProgress write lock). Offline checker over the recorded frames:
//!   shown(b) never decreases, shown(b) <= issued(b) at the time of the flush (a state the bar
//!   really had), every member at most once and in list order, log lines per thread in program
//!   order exactly once, and the last forced frame shows the final states.

use crate::json::J;
use crate::prng::{fnv1a, splitmix, Rng};
use crate::report::{CaseOut, Verdict, Violation};
use crate::spy::SpyTerm;
use indicatif::verif_hooks as vh;
use indicatif::{MultiProgress, ProgressBar, ProgressDrawTarget, ProgressStyle};
use std::sync::atomic::{AtomicU64, Ordering};
use std::sync::mpsc;
use std::sync::Arc;
use std::time::Duration;

fn viol(rule: &str, detail: String, w: J, replay: String) -> Verdict {
    Verdict::Violated(Box::new(Violation { rule: rule.into(), features: vec!["concurrent".into(), "multi".into()], detail, witness: w, replay }))
}

fn parse_bar_row(r: &str) -> Option<(usize, u64)> {
    let rest = r.strip_prefix('B')?;
    let (id, tail) = rest.split_once(' ')?;
    let id: usize = id.parse().ok()?;
    let seq = tail.split('#').nth(1)?.split(' ').next()?.parse().ok()?;
    Some((id, seq))
}

pub fn concurrent_case(seed: u64, idx: u64) -> CaseOut {
    let mut rng = Rng::derive(seed, 202, idx);
    let replay = format!("c{seed}:{idx}");
    let n_threads = rng.range(2, 8) as usize;
    let bars_per = rng.range(1, 2) as usize;
    let n_bars = n_threads * bars_per;
    let ops_per = rng.range(5, 60);
    let hz = *rng.pick(&[None, None, Some(255u8), Some(60)]);
    let with_println = rng.chance(1, 2);
    let w = J::obj().with("threads", n_threads).with("bars", n_bars).with("ops_per_thread", ops_per).with("hz", hz.map(|h| h as u64)).with("println", with_println);
    let mut co = CaseOut::held(fnv1a(format!("{n_threads}{bars_per}{ops_per}{hz:?}{with_println}{idx}").as_bytes()), true);

    let issued: Arc<Vec<AtomicU64>> = Arc::new((0..n_bars).map(|_| AtomicU64::new(0)).collect());
    let spy = SpyTerm::new(60, 100, false);
    {
        let iss = issued.clone();
        let mut st = spy.state();
        st.snap_on_flush = true;
        st.extra = Some(Arc::new(move || iss.iter().map(|a| a.load(Ordering::SeqCst)).collect()));
    }
    let delay_word = Arc::new(AtomicU64::new(splitmix(seed ^ idx) | 1));
    let dw = delay_word.clone();
    let session = vh::Session::new(
        None,
        false,
        Some(Box::new(move |_p: &vh::DelayPoint| {
            let mut x = dw.load(Ordering::Relaxed);
            x ^= x << 13;
            x ^= x >> 7;
            x ^= x << 17;
            dw.store(x, Ordering::Relaxed);
            match x % 24 {
                0 => std::thread::sleep(Duration::from_micros(x % 150)),
                1..=5 => std::thread::yield_now(),
                _ => {}
            }
        })),
    );
    let (tx, rx) = mpsc::channel();
    let spy2 = spy.clone();
    let iss2 = issued.clone();
    let seeds: Vec<u64> = (0..n_threads).map(|_| rng.next_u64()).collect();
    std::thread::spawn(move || {
        vh::install(Some(session));
        let target = match hz {
            Some(h) => ProgressDrawTarget::term_like_with_hz(spy2.boxed(), h),
            None => ProgressDrawTarget::term_like(spy2.boxed()),
        };
        let mp = MultiProgress::with_draw_target(target);
        let bars: Vec<ProgressBar> = (0..n_bars)
            .map(|i| {
                let pb = mp.add(ProgressBar::with_draw_target(Some(1000), ProgressDrawTarget::hidden()));
                pb.set_style(ProgressStyle::with_template(&format!("B{i} {{msg}} {{pos}}")).unwrap());
                pb.set_message("#0");
                pb
            })
            .collect();
        let handles: Vec<_> = (0..n_threads)
            .map(|t| {
                let mine: Vec<(usize, ProgressBar)> = (0..bars_per).map(|k| (t * bars_per + k, bars[t * bars_per + k].clone())).collect();
                let iss = iss2.clone();
                let mp = mp.clone();
                let mut r = Rng::new(seeds[t]);
                vh::thread::spawn(move || {
                    let mut logs = 0u64;
                    for _ in 0..ops_per {
                        let (b, pb) = &mine[r.usize(mine.len())];
                        match r.below(10) {
                            0..=5 => {
                                // call event before invoke: publish, then call
                                let s = iss[*b].fetch_add(1, Ordering::SeqCst) + 1;
                                pb.set_message(format!("#{s}"));
                            }
                            6 => pb.tick(),
                            7 => pb.inc(1),
                            8 if with_println => {
                                logs += 1;
                                if r.chance(1, 2) {
                                    let _ = mp.println(format!("T{t}:{logs}"));
                                } else {
                                    pb.println(format!("T{t}:{logs}"));
                                }
                            }
                            _ => pb.tick(),
                        }
                    }
                    logs
                })
            })
            .collect();
        let logs: Vec<u64> = handles.into_iter().map(|h| h.join().unwrap_or(u64::MAX)).collect();
        // final forced redraw: every bar renders itself once more
        for b in &bars {
            b.force_draw();
        }
        let frames_until_final = spy2.state().snaps.len();
        let _ = tx.send((logs, frames_until_final));
        drop(bars);
        drop(mp);
    });
    let (logs, frames_until_final) = match rx.recv_timeout(Duration::from_secs(60)) {
        Ok(l) => l,
        Err(_) => {
            co.verdict = Verdict::Inconclusive("concurrent run did not complete within the watchdog".into());
            return co;
        }
    };
    if logs.iter().any(|l| *l == u64::MAX) {
        co.verdict = viol("panic", "a worker thread panicked".into(), w, replay);
        return co;
    }
    // ---- offline checker over the recorded frames ----------------------------------------------------
    let mut snaps = spy.take_snaps();
    snaps.truncate(frames_until_final); // what dropping the bars paints afterwards is not part of the run
    let mut last_shown = vec![0u64; n_bars];
    let mut frames = 0u64;
    let mut foreign = 0u64;
    for s in &snaps {
        frames += 1;
        // bottom-up: bar rows, then only log rows
        let mut seen: Vec<usize> = Vec::new();
        let mut in_frame = true;
        let mut last_log: Vec<u64> = vec![u64::MAX; n_threads];
        for r in s.rows.iter().rev() {
            if in_frame {
                if let Some((id, seq)) = parse_bar_row(r) {
                    if seen.contains(&id) {
                        co.verdict = viol("member-duplicated", format!("B{id} twice in one frame: {:?}", s.rows), w, replay);
                        return co;
                    }
                    if let Some(prev) = seen.last() {
                        if id > *prev {
                            co.verdict = viol("member-order", format!("B{id} below B{prev}: {:?}", s.rows), w, replay);
                            return co;
                        }
                    }
                    seen.push(id);
                    let issued_now = s.extra.get(id).copied().unwrap_or(0);
                    if seq > issued_now {
                        co.verdict = viol("member-state-never-had", format!("frame shows B{id} #{seq} but only #{issued_now} had been issued when it was flushed"), w, replay);
                        return co;
                    }
                    if seq < last_shown[id] {
                        co.verdict = viol("member-stale", format!("frame shows B{id} #{seq} after #{} had been shown", last_shown[id]), w, replay);
                        return co;
                    }
                    if seq < issued_now {
                        foreign += 1;
                    }
                    last_shown[id] = seq;
                    continue;
                }
                in_frame = false;
            }
            if parse_bar_row(r).is_some() {
                co.verdict = viol("residue-row", format!("a bar row above the log: {:?}", s.rows), w, replay);
                return co;
            }
            if let Some(rest) = r.strip_prefix('T') {
                if let Some((t, k)) = rest.split_once(':') {
                    if let (Ok(t), Ok(k)) = (t.parse::<usize>(), k.parse::<u64>()) {
                        // walking upwards: numbers of one thread must decrease by exactly one
                        if t < n_threads {
                            if last_log[t] != u64::MAX && k + 1 != last_log[t] {
                                let rule = if k >= last_log[t] { "log-reordered" } else { "log-missing" };
                                co.verdict = viol(rule, format!("thread {t}: line {k} directly above line {} : {:?}", last_log[t], s.rows), w, replay);
                                return co;
                            }
                            last_log[t] = k;
                        }
                    }
                }
            } else if !r.is_empty() {
                co.verdict = viol("residue-row", format!("unknown row {r:?}: {:?}", s.rows), w, replay);
                return co;
            }
        }
    }
    // the last frame shows the final states and all log lines
    if let Some(last) = snaps.last() {
        for b in 0..n_bars {
            let fin = issued[b].load(Ordering::SeqCst);
            let shown = last.rows.iter().filter_map(|r| parse_bar_row(r)).find(|(id, _)| *id == b).map(|(_, s)| s);
            if shown != Some(fin) {
                co.verdict = viol("final-frame-stale", format!("after all threads were joined and every bar was redrawn, B{b} shows {shown:?}, final state is #{fin}: {:?}", last.rows), w, replay);
                return co;
            }
        }
        for (t, n) in logs.iter().enumerate() {
            let have = last.rows.iter().filter(|r| r.starts_with(&format!("T{t}:"))).count() as u64;
            if have != *n {
                co.verdict = viol("log-missing", format!("thread {t} printed {n} lines, the final screen holds {have}"), w, replay);
                return co;
            }
        }
    }
    co.count("concurrent_frames_checked", frames);
    co.count("frames_showing_a_state_older_than_issued", foreign);
    co.count("concurrent_runs", 1);
    co.see("thread_counts", n_threads as u64);
    if idx < 2 {
        co.sample = Some(w);
    }
    co
}
