//! C05: redraw throttling — bounded frame rate, bounded staleness, nothing lost.
//! Runs entirely on the virtual clock of the verif-hooks feature: no sleeping, no wall-clock verdicts.

use super::{PropResult, RunCfg};
use crate::json::J;
use crate::prng::{fnv1a, Rng};
use crate::report::{run_parallel, workers, CaseOut, Verdict, Violation};
use crate::spy::SpyTerm;
use crate::world::install_session;
use indicatif::{MultiProgress, ProgressBar, ProgressDrawTarget, ProgressStyle};
use std::sync::atomic::{AtomicU64, Ordering};
use std::sync::Arc;

#[derive(Clone, Copy, Debug, PartialEq)]
enum Req {
    Tick,
    Msg,
    Inc,
    SetPos,
    Force,
    Println,
    /// reset(): an ordinary redraw request; it does not hand out fresh position tokens
    Reset,
}

const MS: u64 = 1_000_000;

fn gap(rng: &mut Rng, interval_ns: u64, mode: u64) -> u64 {
    match mode {
        0 => 0,
        1 => rng.range(0, 2 * MS),
        2 => {
            // clustered around multiples of the refresh interval
            let k = rng.range(0, 3) as i128;
            let d = *rng.pick(&[0i128, 1, -1, 999_999, -999_999, 500_000]);
            (k * interval_ns as i128 + d).max(0) as u64
        }
        3 => *rng.pick(&[MS, MS - 1, MS + 1, 999_999, 1_000_001, 2 * MS]),
        4 => {
            // geometric up to hours
            let e = rng.range(0, 43);
            (1u64 << e).min(4 * 3600 * 1_000_000_000)
        }
        _ => rng.range(0, interval_ns.max(1) / 4 + 1),
    }
}

struct Frame {
    t: u64,
    forced: bool,
    /// the frame was caused by a position update of this bar
    update_of: Option<usize>,
}

fn viol(rule: &str, feats: Vec<String>, detail: String, w: J, replay: String) -> Verdict {
    Verdict::Violated(Box::new(Violation { rule: rule.into(), features: feats, detail, witness: w, replay }))
}

fn run_case(seed: u64, idx: u64, all_rates: bool) -> CaseOut {
    let mut rng = Rng::derive(seed, 5, idx);
    let replay = format!("{seed}:{idx}");
    // every rate 1..=255 in thorough; quick: the classic ones plus a seeded third
    let rate: u8 = if all_rates {
        (idx % 255 + 1) as u8
    } else {
        match rng.below(3) {
            0 => *rng.pick(&[1u8, 3, 7, 20, 60, 255]),
            _ => rng.range(1, 255) as u8,
        }
    };
    let limited = rng.chance(2, 3); // limited target, or term_like (then only the per-bar bucket acts)
    let multi = rng.chance(1, 4);
    let n_bars = if multi { rng.range(1, 3) as usize } else { 1 };
    let interval_ns = 1_000_000_000u64 / rate as u64;

    let clock = Arc::new(AtomicU64::new(5_000_000_000));
    install_session(&clock);
    let spy = SpyTerm::new(80, 50, false);
    spy.state().snap_on_flush = false;
    let target = if limited {
        ProgressDrawTarget::term_like_with_hz(spy.boxed(), rate)
    } else {
        ProgressDrawTarget::term_like(spy.boxed())
    };
    let style = |i: usize| ProgressStyle::with_template(&format!("B{i} {{pos}}/{{len}} {{msg}}")).unwrap();
    let mp = multi.then(|| MultiProgress::with_draw_target(target));
    let bars: Vec<ProgressBar> = (0..n_bars)
        .map(|i| match &mp {
            Some(mp) => mp.add(ProgressBar::with_draw_target(Some(1000), ProgressDrawTarget::hidden()).with_style(style(i))),
            None => ProgressBar::with_draw_target(Some(1000), if limited { ProgressDrawTarget::term_like_with_hz(spy.boxed(), rate) } else { ProgressDrawTarget::term_like(spy.boxed()) }).with_style(style(i)),
        })
        .collect();
    // a MultiProgress may carry the static rows of an earlier, visibly finished and dropped bar
    let with_reaped = multi && rng.chance(1, 2);
    if let (true, Some(mp)) = (with_reaped, &mp) {
        let z = mp.insert(0, ProgressBar::with_draw_target(Some(3), ProgressDrawTarget::hidden()).with_style(ProgressStyle::with_template("Z {pos}/{len}").unwrap()));
        z.tick();
        z.finish();
        drop(z);
        clock.fetch_add(5_000_000_000, Ordering::SeqCst);
    }
    let mut model: Vec<(u64, String)> = vec![(0, String::new()); n_bars];

    let n_ops = rng.range(200, 1500);
    // arrival mode 6 is the metronome: a burst that empties the bucket, then requests exactly one refresh
    // interval apart - each of them is due
    // arrival mode 7 is the finish/reset storm: every request is a reset() of a bar that was finished just before
    // (finishing paints a forced frame; the reset that follows is an ordinary request again)
    let mode_major = rng.below(8);
    let ceil_interval = interval_ns + if 1_000_000_000 % rate as u64 != 0 { 1 } else { 0 };
    let mut frames: Vec<Frame> = Vec::new();
    let mut requests = 0u64;
    let mut skipped = 0u64;
    let mut last_paint: Option<u64> = None;
    let mut last_admitted_update: Vec<Option<u64>> = vec![None; n_bars];
    let mut updates_since_start: Vec<u64> = vec![0; n_bars];
    let mut max_stale = 0u64;
    // MultiProgress worlds: the row every member must show in the next painted frame, whoever asks for that frame -
    // known after a request that always renders the member (tick, set_message, force_draw), unknown (None) after a
    // position update that the per-bar bucket may have swallowed (round 11)
    let mut rendered: Vec<Option<String>> = vec![None; n_bars];
    let mut member_rows_checked = 0u64;
    let mut nested = 0u64;
    let mut episodes = 0u64;
    let mut finish_resets = 0u64;
    let steady_episode = rng.chance(1, 3);
    let mut verdict = Verdict::Held;
    let feats = |extra: &str| {
        let mut f = vec![if limited { "limited-target".to_string() } else { "unlimited-target".to_string() }];
        if multi {
            f.push("multi".into());
        }
        if with_reaped {
            f.push("reaped-finished-bar".into());
        }
        if 1000 % rate as u32 != 0 {
            f.push("rate-does-not-divide-1000".into());
        }
        if !extra.is_empty() {
            f.push(extra.to_string());
        }
        f
    };
    let witness = |extra: String| J::obj().with("rate_hz", rate).with("limited_target", limited).with("multi", multi).with("bars", n_bars).with("note", extra);

    'ops: for opi in 0..n_ops {
        let mode = if rng.chance(3, 4) { mode_major } else { rng.below(6) };
        let metronome = mode_major == 6;
        let storm = mode_major == 7;
        let g = if metronome {
            if opi < 30 {
                0
            } else {
                ceil_interval * rng.range(1, 2)
            }
        } else {
            let m = if storm { *rng.pick(&[0u64, 0, 1, 5]) } else { mode.min(5) };
            gap(&mut rng, interval_ns, m)
        };
        clock.fetch_add(g, Ordering::SeqCst);
        let now = clock.load(Ordering::SeqCst);
        let b = rng.usize(n_bars);
        // ---- a steady-tick episode: the ticker is switched on and off again (disable joins the thread, so
        // whatever it painted is on the terminal when the call returns). Afterwards the bar is an
        // ordinary manually driven bar again: all laws below keep applying to it.
        if !metronome && (opi == 0 && steady_episode || rng.chance(1, 400)) {
            let before = spy.flushes();
            bars[b].enable_steady_tick(std::time::Duration::from_secs(rng.range(1, 7200)));
            if rng.chance(1, 2) {
                bars[b].enable_steady_tick(std::time::Duration::from_secs(3600));
            }
            bars[b].disable_steady_tick();
            for _ in 0..(spy.flushes() - before) {
                frames.push(Frame { t: now, forced: false, update_of: None });
                last_paint = Some(now);
            }
            episodes += 1;
            continue 'ops;
        }
        // ---- nested requests: update() takes its time stamp before running the closure; if other bars of
        // the same MultiProgress are redrawn inside the closure (after time has passed), update()'s own
        // redraw request reaches the shared limiter with a stamp OLDER than the limiter's last frame.
        // The calls are made in non-decreasing time order; only the rate law is checked for them.
        if multi && n_bars >= 2 && rng.chance(1, 25) {
            let a = (b + 1) % n_bars;
            let big = match rng.below(3) {
                0 => rng.range(0, 3) * interval_ns,
                1 => rng.range(5, 40) * interval_ns,
                _ => rng.range(0, 2 * MS),
            };
            let k = rng.range(0, 25);
            let newpos = rng.range(0, 2000);
            let mut inner_frames: Vec<u64> = Vec::new();
            let before = spy.flushes();
            let t_call = clock.load(Ordering::SeqCst);
            bars[a].update(|st| {
                st.set_pos(newpos);
                clock.fetch_add(big, Ordering::SeqCst);
                for _ in 0..k {
                    let f0 = spy.flushes();
                    bars[b].tick();
                    if spy.flushes() > f0 {
                        inner_frames.push(clock.load(Ordering::SeqCst));
                    }
                }
            });
            model[a].0 = newpos;
            let total = spy.flushes() - before;
            requests += k + 1;
            for t in &inner_frames {
                frames.push(Frame { t: *t, forced: false, update_of: None });
                last_paint = Some(*t);
            }
            if total > inner_frames.len() as u64 {
                // update()'s own frame belongs to the instant update() was called (that is the request's time;
                // the closure merely delayed its execution)
                frames.push(Frame { t: t_call, forced: false, update_of: None });
                last_paint = Some(last_paint.map_or(t_call, |p| p.max(t_call)));
            }
            skipped += k + 1 - total.min(k + 1);
            nested += 1;
            rendered.iter_mut().for_each(|r| *r = None);
            continue 'ops;
        }
        let req = match if metronome { 7 } else if storm { 20 } else { rng.below(21) } {
            20 => Req::Reset,
            0 => Req::Force,
            1 => Req::Println,
            2..=5 => Req::Msg,
            6..=10 => Req::Tick,
            11..=16 => Req::Inc,
            _ => Req::SetPos,
        };
        if req == Req::Reset && (storm || rng.chance(1, 2)) {
            // the bar is finished first (a forced frame, sometimes followed by a tick of the finished bar - forced too)
            let f0 = spy.flushes();
            bars[b].finish();
            if rng.chance(1, 4) {
                bars[b].tick();
            }
            for _ in 0..(spy.flushes() - f0) {
                frames.push(Frame { t: now, forced: true, update_of: None });
                last_paint = Some(now);
            }
            finish_resets += 1;
        }
        let before = spy.flushes();
        match req {
            Req::Tick => bars[b].tick(),
            Req::Msg => {
                // (some messages span several rows, with an empty one in between: more rows, same throttling)
                model[b].1 = match rng.below(8) {
                    0 => format!("m{opi}\n\nz"),
                    1 => format!("m{opi}\nz"),
                    _ => format!("m{opi}"),
                };
                bars[b].set_message(model[b].1.clone());
            }
            Req::Inc => {
                model[b].0 = model[b].0.wrapping_add(1);
                bars[b].inc(1);
            }
            Req::SetPos => {
                model[b].0 = rng.range(0, 2000);
                bars[b].set_position(model[b].0);
            }
            Req::Reset => {
                model[b].0 = 0;
                bars[b].reset();
                // (the position bucket starts counting from now; it is not refilled)
                if let Some(a) = last_admitted_update[b].as_mut() {
                    *a = (*a).max(now);
                }
            }
            Req::Force => bars[b].force_draw(),
            Req::Println => match &mp {
                Some(mp) => {
                    let _ = mp.println("log");
                }
                None => bars[b].println("log"),
            },
        }
        let flushed = spy.flushes() - before;
        let forced = matches!(req, Req::Force | Req::Println);
        requests += 1;
        if flushed > 1 {
            verdict = viol("several-frames-for-one-request", feats(""), format!("{req:?} caused {flushed} flushes"), witness(String::new()), replay.clone());
            break 'ops;
        }
        // ---- nothing lost: a painted frame shows the latest state of the bar that drew ------------
        // (a frame triggered by MultiProgress::println re-renders no bar: it shows every bar's most
        // recently drawn rendering, which is C02's business)
        if flushed == 1 && !(multi && req == Req::Println) {
            let rows = spy.state().screen.all_rows();
            let want = format!("B{b} {}/1000 {}", model[b].0, model[b].1.split('\n').next().unwrap_or(""));
            if !rows.iter().any(|r| r.trim_end() == want.trim_end()) {
                verdict = viol("stale-frame", feats(""), format!("frame painted by {req:?} on B{b} does not show the latest state {want:?}: {rows:?}"), witness(String::new()), replay.clone());
                break 'ops;
            }
        }
        if multi {
            match req {
                Req::Tick | Req::Msg | Req::Force => rendered[b] = Some(format!("B{b} {}/1000 {}", model[b].0, model[b].1.split('\n').next().unwrap_or(""))),
                Req::Println => {}
                _ => rendered[b] = None,
            }
            if flushed == 1 {
                let rows = spy.state().screen.all_rows();
                for (x, r) in rendered.iter().enumerate() {
                    let Some(r) = r else { continue };
                    member_rows_checked += 1;
                    if !rows.iter().any(|q| q.trim_end() == r.trim_end()) {
                        verdict = viol("stale-member-in-frame", feats(""), format!("frame painted by {req:?} on B{b}: member B{x} was rendered as {r:?} by its last request (declined by the limiter, so not painted then) but the frame does not show that: {rows:?}"), witness(String::new()), replay.clone());
                        break 'ops;
                    }
                }
            }
        }
        if forced && flushed == 0 {
            verdict = viol("forced-draw-skipped", feats(""), format!("{req:?} was not painted"), witness(String::new()), replay.clone());
            break 'ops;
        }
        // ---- must-paint laws -------------------------------------------------------------------------
        let is_update = matches!(req, Req::Inc | Req::SetPos);
        if !forced {
            if limited {
                let due = last_paint.map_or(true, |p| now - p >= interval_ns + if 1_000_000_000 % rate as u64 != 0 { 1 } else { 0 });
                // an ordinary request (tick / set_message) at least one interval after the last paint
                if !is_update && due && flushed == 0 {
                    verdict = viol("due-request-not-painted", feats(""), format!("{req:?} at t={now} ns, last painted frame at {last_paint:?}, interval {interval_ns} ns: not painted"), witness(String::new()), replay.clone());
                    break 'ops;
                }
            } else if !is_update && flushed == 0 {
                verdict = viol("due-request-not-painted", feats("no-limiter"), format!("{req:?} on a target without limiter was not painted"), witness(String::new()), replay.clone());
                break 'ops;
            }
            if is_update {
                updates_since_start[b] += 1;
                // per-bar bucket: burst 10, 1 ms. An update >= 1 ms after the last admitted one is admitted.
                let due_bucket = last_admitted_update[b].map_or(true, |a| now - a >= MS);
                if !limited {
                    // without target limiter every admitted update is exactly one flush
                    if due_bucket && flushed == 0 {
                        verdict = viol("due-position-update-not-painted", feats(""), format!("{req:?} at t={now}, last admitted update of B{b} at {:?}: not painted", last_admitted_update[b]), witness(String::new()), replay.clone());
                        break 'ops;
                    }
                    if flushed == 1 {
                        last_admitted_update[b] = Some(now);
                    }
                } else {
                    // staleness: never more than one refresh interval + 1 ms behind a continuously updated bar
                    if let Some(p) = last_paint {
                        if flushed == 0 {
                            let stale = now - p;
                            max_stale = max_stale.max(stale);
                            if stale > interval_ns + MS + 1 {
                                verdict = viol("stale-beyond-bound", feats(""), format!("after {req:?} at t={now} the last painted frame is {stale} ns old (bound {} ns)", interval_ns + MS), witness(String::new()), replay.clone());
                                break 'ops;
                            }
                        }
                    }
                }
            }
        }
        if flushed == 1 {
            frames.push(Frame { t: now, forced, update_of: is_update.then_some(b) });
            last_paint = Some(now);
        } else {
            skipped += 1;
        }
    }

    // ---- frame-rate law over all windows: count <= 20 + R*T + 1 -------------------------------------
    let mut max_excess: i128 = i128::MIN;
    if matches!(verdict, Verdict::Held) {
        let mut ordinary: Vec<u64> = frames.iter().filter(|f| !f.forced).map(|f| f.t).collect();
        ordinary.sort();
        let burst: i128 = 20;
        let r_num: i128 = rate as i128; // frames per second allowed
        if !limited {
            // without a target limiter the per-bar bucket (burst 10, 1 ms) bounds the frames caused
            // by position updates of each bar
            for b in 0..n_bars {
                let ts: Vec<u64> = frames.iter().filter(|f| f.update_of == Some(b)).map(|f| f.t).collect();
                let mut min_phi = i128::MAX;
                for (i, t) in ts.iter().enumerate() {
                    let phi = i as i128 * 1_000_000 - (*t as i128); // 1 frame per 1e6 ns
                    min_phi = min_phi.min(phi);
                    if phi - min_phi > 10 * 1_000_000 {
                        verdict = viol(
                            "position-update-rate-bound-exceeded",
                            feats(""),
                            format!("more than 10 + T/1ms + 1 frames caused by position updates of B{b} in a window ending at t={t} ns"),
                            witness(format!("{} update frames", ts.len())),
                            replay.clone(),
                        );
                        break;
                    }
                }
            }
        }
        if limited {
            let mut min_phi = i128::MAX;
            for (i, t) in ordinary.iter().enumerate() {
                let phi = i as i128 * 1_000_000_000 - r_num * (*t as i128);
                min_phi = min_phi.min(phi);
                let excess = phi - min_phi; // (count-1)*1e9 - R*T*1e9/1e9
                max_excess = max_excess.max(excess);
                if excess > burst * 1_000_000_000 {
                    let j = i;
                    verdict = viol(
                        "frame-rate-bound-exceeded",
                        feats(""),
                        format!(
                            "a window ending at frame {j} (t={t} ns) holds more than 20 + R*T + 1 ordinary frames at R={rate}: excess {:.3} frames over the burst",
                            (excess - burst * 1_000_000_000) as f64 / 1e9
                        ),
                        witness(format!("{} ordinary frames in {} requests", ordinary.len(), requests)),
                        replay.clone(),
                    );
                    break;
                }
            }
        }
    }
    let mut co = CaseOut::held(fnv1a(format!("{rate}{limited}{multi}{n_bars}{mode_major}{n_ops}{idx}").as_bytes()), frames.len() >= 2 && skipped >= 1);
    co.verdict = verdict;
    co.count("requests", requests);
    co.count("frames", frames.len() as u64);
    co.count("forced_frames", frames.iter().filter(|f| f.forced).count() as u64);
    co.count("skipped_requests", skipped);
    co.count("nested_update_requests_with_stale_stamp", nested);
    co.count("steady_tick_on_off_episodes", episodes);
    co.count("member_rows_checked_in_frames_of_other_requests", member_rows_checked);
    co.count("resets_of_a_finished_bar", finish_resets);
    co.max("staleness_ns", max_stale);
    co.max("window_excess_milliframes_over_RT", if max_excess > 0 { (max_excess / 1_000_000) as u64 } else { 0 });
    co.see("rates", rate as u64);
    co.see("arrival_modes", mode_major);
    if idx < 3 {
        co.sample = Some(witness(format!("{requests} requests, {} frames, {skipped} skipped, arrival mode {mode_major}", frames.len())));
    }
    drop(bars);
    drop(mp);
    indicatif::verif_hooks::install(None);
    co
}

pub fn run(cfg: &RunCfg) -> PropResult {
    let report = if let Some(case) = &cfg.case {
        let mut it = case.split(':');
        let seed: u64 = it.next().and_then(|s| s.parse().ok()).unwrap_or(cfg.seed);
        let idx: u64 = it.next().and_then(|s| s.parse().ok()).unwrap_or(0);
        let mut r = crate::report::Report::default();
        r.add(idx, run_case(seed, idx, cfg.thorough));
        r
    } else {
        let n = if cfg.thorough { 255 * 400 } else { 15_000 };
        run_parallel(n, workers(), |i| run_case(cfg.seed, i, cfg.thorough))
    };
    PropResult {
        report,
        rule: "each evaluation: one arrival process of 200-1500 requests (tick, set_message, inc, set_position, force_draw, println, and in MultiProgress worlds nested requests: update() whose closure lets time pass and redraws a sibling, so that update()'s own request reaches the shared limiter with a stale stamp) with gaps from seven families (a metronome: burst, then requests exactly one refresh interval apart; 0 ns bursts, sub-2ms noise, k*interval +-{0,1,999999} ns, around 1 ms, geometric up to 4 h, fractions of the interval) against one refresh rate (thorough: every rate 1..=255) on a limited or unlimited spy target, standalone or as MultiProgress target with 1-3 bars, driven on the virtual clock; non-trivial = at least 2 frames painted and at least 1 request skipped; distinct = (rate, target kind, arrival family, length, index)".into(),
        exhaustive: false,
    }
}
