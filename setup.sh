#!/bin/sh
# Offline setup: pre-build the harness (both profiles) against /repo's current tree.
set -e
cd "$(dirname "$0")"
export CARGO_NET_OFFLINE=true CARGO_TARGET_DIR=/verif/target
cargo build --offline --release --manifest-path harness/Cargo.toml
cargo build --offline --manifest-path harness/Cargo.toml
cargo build --offline --release --manifest-path harness-adapt/Cargo.toml
# warm the Miri build of the tiny scheduler workloads (C07/C08 miri lanes)
CARGO_TARGET_DIR=/verif/target/miri cargo +nightly miri run --offline --manifest-path miri/Cargo.toml --bin sched -- 999999999 >/dev/null 2>&1 || true
