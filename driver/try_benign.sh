#!/bin/bash
# usage: try_benign.sh <patch> [IDs...]   Runs the quick checks against a scratch copy of /repo (HEAD + patch)
# with a scratch copy of /verif, leaving /repo and /verif untouched. The scratch environment /tmp/bx is reused
# between calls (incremental builds); remove it with `try_benign.sh --clean`.
BX=/tmp/bx
if [ "$1" = "--clean" ]; then git -C /repo worktree remove --force $BX/repo 2>/dev/null; rm -rf $BX; git -C /repo worktree prune; exit 0; fi
patch=$(realpath "$1"); shift
ids=${@:-C01 C02 C03 C04 C05 C06 C07 C08 C09 C10 C11 C12 C13 C14 C15 C16 C17 C18 C19}
mkdir -p $BX
if [ ! -d $BX/repo ]; then git -C /repo worktree add -q --detach $BX/repo HEAD || exit 2; fi
git -C $BX/repo checkout -q --detach $(git -C /repo rev-parse HEAD); git -C $BX/repo checkout -- . 
rsync -a --delete --exclude target --exclude results --exclude replays --exclude .git /verif/ $BX/verif/
mkdir -p $BX/verif/results $BX/verif/replays
sed -i "s|path = \"/repo\"|path = \"$BX/repo\"|" $BX/verif/harness/Cargo.toml $BX/verif/harness-adapt/Cargo.toml $BX/verif/miri/Cargo.toml
sed -i "s|/verif/target|$BX/verif/target|" $BX/verif/.cargo/config.toml
git -C $BX/repo apply "$patch" || { echo "PATCH DOES NOT APPLY"; exit 3; }
cd $BX/verif
for id in $ids; do ./check $id 2>&1 | grep -E "^(OK|VIOLATION|INCONCLUSIVE|  signature|error)" | cut -c1-220 | head -6; done
git -C $BX/repo checkout -- .
