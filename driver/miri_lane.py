#!/usr/bin/env python3
"""Miri lane for C07 (conservation under Miri's seeded scheduler + race detector) and C08
(Miri's deadlock detector). usage: miri_lane.py <C07|C08> <tier> <seed> <out.json> [case]

Each evaluation = one (scenario, Miri seed) execution of /verif/miri's `sched` binary.
A Miri error that is not a deadlock / data race / failed conservation assertion (e.g. an
unsupported operation) makes that evaluation inconclusive, never a violation.
"""
import json
import os
import re
import subprocess
import sys
import time
from concurrent.futures import ThreadPoolExecutor

ROOT = os.path.dirname(os.path.dirname(os.path.abspath(__file__)))
ENV = dict(os.environ, CARGO_NET_OFFLINE="true", CARGO_TARGET_DIR=os.path.join(ROOT, "target", "miri"))


def run(scenario, seeds, timeout):
    env = dict(ENV, MIRIFLAGS=f"-Zmiri-many-seeds={seeds[0]}..{seeds[1]}")
    cmd = ["cargo", "+nightly", "miri", "run", "--offline", "--manifest-path", os.path.join(ROOT, "miri", "Cargo.toml"),
           "--bin", "sched", "--", str(scenario)]
    try:
        p = subprocess.run(cmd, env=env, stdout=subprocess.PIPE, stderr=subprocess.STDOUT, text=True, timeout=timeout)
        return scenario, p.stdout
    except subprocess.TimeoutExpired as e:
        return scenario, "WATCHDOG " + (e.stdout or "")[-500:] if isinstance(e.stdout, str) else "WATCHDOG"


def main():
    prop, tier, seed, out = sys.argv[1], sys.argv[2], int(sys.argv[3]), sys.argv[4]
    case = sys.argv[5] if len(sys.argv) > 5 else None
    t0 = time.time()
    parity = 1 if prop == "C07" else 0
    if case:
        sc, lo, hi = (int(x) for x in case.split(":"))
        scenarios, seeds = [sc], (lo, hi)
    else:
        n = 96 if tier == "thorough" else 10
        width = 32 if tier == "thorough" else 8
        base = (seed * 1000) % 1_000_000
        scenarios = [2 * (base + i) + parity for i in range(n)]
        seeds = ((seed * 64) % 4096, (seed * 64) % 4096 + width)
    # warm-up build (serial), then the runs in parallel
    warm = subprocess.run(["cargo", "+nightly", "miri", "run", "--offline", "--manifest-path", os.path.join(ROOT, "miri", "Cargo.toml"),
                           "--bin", "sched", "--", "999999999"], env=ENV, stdout=subprocess.PIPE, stderr=subprocess.STDOUT, text=True)
    if "done" not in warm.stdout:
        sys.stderr.write(warm.stdout[-3000:])
        sys.exit(3)
    evaluations = 0
    done = 0
    inconclusive = 0
    reasons = {}
    violations = {}
    samples = []
    distinct = set()
    term_calls = 0
    with ThreadPoolExecutor(max_workers=4) as ex:
        for sc, text in ex.map(lambda s: run(s, seeds, 1200), scenarios):
            width = seeds[1] - seeds[0]
            evaluations += width
            ok = re.findall(r"scenario \d+ done: threads (\d+) counting_only (\w+) terminal_calls (\d+)", text)
            done += len(ok)
            for th, co, tc in ok:
                term_calls += int(tc)
                distinct.add((sc, tc))
            if len(samples) < 4 and ok:
                samples.append({"scenario": sc, "miri_seeds": f"{seeds[0]}..{seeds[1]}", "threads": int(ok[0][0]), "outcomes": sorted(set(f"{tc} terminal calls" for _, _, tc in ok))})
            errs = re.findall(r"error: (.*)", text)
            bad = None
            for e in errs:
                if "deadlock" in e:
                    bad = ("deadlock", "miri-deadlock", e)
                elif "Data race" in e:
                    bad = ("data-race", "miri-data-race", e)
                elif "lost update" in text or "assertion" in e:
                    bad = ("lost-update", "miri", e)
                elif "panicked" in e or "abnormal termination" in e:
                    m = re.search(r"panicked at .*", text)
                    bad = ("panic" if "lost update" not in text else "lost-update", "miri", (m.group(0) if m else e)[:300])
            if "lost update" in text and not bad:
                bad = ("lost-update", "miri", re.search(r"lost update[^\n]*", text).group(0))
            if bad:
                rule, feat, detail = bad
                sig = f"{rule} [{feat}]"
                v = violations.setdefault(sig, {"signature": sig, "rule": rule, "features": [feat], "count": 0, "first_index": sc,
                                                "detail": f"scenario {sc}, Miri seeds {seeds[0]}..{seeds[1]}: {detail}",
                                                "witness": {"scenario": sc, "miri_seeds": list(seeds), "output_tail": text[-1500:]},
                                                "replay": f"{sc}:{seeds[0]}:{seeds[1]}"})
                v["count"] += 1
            elif len(ok) < width:
                missing = width - len(ok)
                inconclusive += missing
                why = "watchdog" if text.startswith("WATCHDOG") else ("miri-error: " + (errs[0][:80] if errs else "no completion line"))
                reasons[why] = reasons.get(why, 0) + missing
    rule = ("each evaluation is one execution of a tiny multi-threaded workload (2-3 threads x 2-8 public calls on a shared bar; "
            + ("inc/dec only, conservation asserted after join" if prop == "C07" else "update/tick/inc/set_message/enable+disable_steady_tick (1 ms and 1 h)/println/clone+drop/suspend/mp.println, optional running ticker")
            + ") under Miri with one scheduler seed (preemptive seeded scheduling, weak-memory emulation, data-race and deadlock detection); distinct = (scenario, observed terminal-call count)")
    res = {
        "property": prop,
        "coverage": {
            "evaluations": evaluations,
            "distinct_nontrivial": max(len(distinct), 0),
            "rule": rule,
            "exhaustive": False,
            "samples": samples,
            "observed": {"miri_executions_completed": done, "scenarios": len(scenarios), "miri_seeds_per_scenario": seeds[1] - seeds[0], "terminal_calls": term_calls},
            "inconclusive": inconclusive,
            "inconclusive_reasons": reasons,
        },
        "violations": list(violations.values()),
        "notes": [],
        "wall_s": time.time() - t0,
        "seed": seed,
        "tier": tier,
        "profile": "miri",
    }
    with open(out, "w") as f:
        json.dump(res, f)


if __name__ == "__main__":
    main()
