#!/bin/bash
# usage: process_seed.sh <round-worktree-prefix> <suffix> <ID> [features]   e.g. process_seed.sh /tmp/wt3- c C04 in_memory
pre=$1; suf=$2; id=$3; feats=${4:-}
cd /verif
echo "=== $id-$suf"
driver/verify_seed.sh ${pre}$id $id-$suf $feats 2>&1 | grep -E "demo rc|PATCH|^test result: (ok. 4[0-9]|FAILED)" | head -4
driver/try_seed.sh seeded/$id-$suf/patch.diff $id 2>&1 | grep -E "^(OK|VIOLATION|INCONCLUSIVE|  signature|error)" | cut -c1-200 | head -5
git -C /repo status --short | head -3
