use std::time::Instant;
use vh::json::J;
use vh::props::{run, RunCfg};

fn main() {
    let args: Vec<String> = std::env::args().collect();
    if args.len() < 2 {
        eprintln!("usage: vh <PROPERTY> [--tier quick|thorough] [--seed N] [--out FILE] [--case SPEC]");
        std::process::exit(2);
    }
    let id = args[1].clone();
    let mut cfg = RunCfg { thorough: false, seed: 1, case: None };
    let mut out: Option<String> = None;
    let (mut first, mut count) = (0u64, 0u64);
    let mut i = 2;
    while i < args.len() {
        match args[i].as_str() {
            "--tier" => {
                cfg.thorough = args.get(i + 1).map(|s| s == "thorough").unwrap_or(false);
                i += 1;
            }
            "--seed" => {
                cfg.seed = args.get(i + 1).and_then(|s| s.parse().ok()).unwrap_or(1);
                i += 1;
            }
            "--out" => {
                out = args.get(i + 1).cloned();
                i += 1;
            }
            "--first" => {
                first = args.get(i + 1).and_then(|s| s.parse().ok()).unwrap_or(0);
                i += 1;
            }
            "--count" => {
                count = args.get(i + 1).and_then(|s| s.parse().ok()).unwrap_or(0);
                i += 1;
            }
            "--case" => {
                cfg.case = args.get(i + 1).cloned();
                i += 1;
            }
            _ => {}
        }
        i += 1;
    }
    // panics are data here (caught and classified); keep stderr quiet
    if std::env::var("VH_VERBOSE_PANIC").is_err() {
        std::panic::set_hook(Box::new(|_| {}));
    }
    if id == "C06-child" {
        vh::props::c06::child_main(cfg.seed, first, count, out.as_deref().unwrap_or("c06-child.json"));
        return;
    }
    vh::report::set_current_seed(cfg.seed);
    if let Some(p) = &out {
        let _ = std::fs::remove_file(format!("{p}.watchdog"));
        vh::report::start_watchdog(p.clone(), cfg.case.clone());
    }
    let t0 = Instant::now();
    let Some(res) = run(&id, &cfg) else {
        eprintln!("unknown property {id}");
        std::process::exit(2);
    };
    let mut j = res.report.to_json(&id, &res.rule, res.exhaustive);
    j.set("wall_s", t0.elapsed().as_secs_f64());
    j.set("seed", cfg.seed);
    j.set("tier", if cfg.thorough { "thorough" } else { "quick" });
    j.set("profile", if cfg!(debug_assertions) { "debug" } else { "release" });
    let text = j.render();
    match out {
        Some(p) => std::fs::write(&p, text).expect("write result"),
        None => println!("{text}"),
    }
    let _ = J::Null;
}
