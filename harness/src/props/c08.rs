//! C08: no deadlock; steady-tick thread lifecycle.
//!
//! Stress lane: real threads created through the verif-hooks thread shim, a seeded delay hook that
//! sleeps / yields *between* critical sections (and in front of the second lock of a nesting,
//! which widens inversion windows), an online wait-for-graph watchdog, an offline lock-order
//! graph over the recorded events, and trace properties of the ticker thread.
//! Liveness is decided as "provably permanent block", never as a plain timeout.

use super::{PropResult, RunCfg};
use crate::json::J;
use crate::prng::{fnv1a, splitmix, Rng};
use crate::report::{CaseOut, Verdict, Violation};
use crate::spy::SpyTerm;
use indicatif::verif_hooks as vh;
use indicatif::{MultiProgress, ProgressBar, ProgressDrawTarget, ProgressStyle};
use std::collections::{BTreeMap, BTreeSet};
use std::sync::atomic::{AtomicU64, Ordering};
use std::sync::mpsc;
use std::sync::{Arc, Mutex};
use std::time::{Duration, Instant};

fn viol(rule: &str, feats: Vec<String>, detail: String, w: J, replay: String) -> Verdict {
    Verdict::Violated(Box::new(Violation { rule: rule.into(), features: feats, detail, witness: w, replay }))
}

#[derive(Clone, Debug)]
enum Call {
    Update,
    Tick,
    Inc,
    SetMsg,
    Enable(u64), // interval in ms
    Disable,
    Finish,
    Println,
    Suspend,
    Reset,
    CloneDrop,
    Position,
    MpPrintln,
    MpAddDrop,
    MpRemoveAdd,
    /// remove the shared bar (other threads keep calling into it) and add it again
    MpRemoveShared,
    /// re-insert the shared bar relative to itself / relative to a fresh sibling (both documented as allowed)
    MpReinsert,
}

fn gen_call(rng: &mut Rng, multi: bool) -> Call {
    let n = if multi { 19 } else { 12 };
    match rng.below(n) {
        0 | 1 => Call::Update,
        2 => Call::Tick,
        3 => Call::Inc,
        4 => Call::SetMsg,
        5 => Call::Enable(*rng.pick(&[1u64, 5, 1000, 3_600_000])),
        6 => Call::Disable,
        7 => Call::Finish,
        8 => Call::Println,
        9 => Call::Suspend,
        10 => Call::Reset,
        11 => if rng.chance(1, 2) { Call::CloneDrop } else { Call::Position },
        12 => Call::MpPrintln,
        13 => Call::MpAddDrop,
        14 => Call::MpRemoveAdd,
        15 | 16 => Call::MpRemoveShared,
        _ => Call::MpReinsert,
    }
}

fn do_call(c: &Call, pb: &ProgressBar, mp: &Option<MultiProgress>) {
    match c {
        Call::Update => pb.update(|s| {
            let p = s.pos();
            s.set_pos(p.wrapping_add(1));
        }),
        Call::Tick => pb.tick(),
        Call::Inc => pb.inc(1),
        Call::SetMsg => pb.set_message("m"),
        Call::Enable(ms) => pb.enable_steady_tick(Duration::from_millis(*ms)),
        Call::Disable => pb.disable_steady_tick(),
        Call::Finish => pb.finish(),
        Call::Println => pb.println("log"),
        Call::Suspend => pb.suspend(|| ()),
        Call::Reset => pb.reset(),
        Call::CloneDrop => drop(pb.clone()),
        Call::Position => {
            let _ = (pb.position(), pb.is_finished(), pb.eta());
        }
        Call::MpPrintln => {
            if let Some(mp) = mp {
                let _ = mp.println("mp log");
            }
        }
        Call::MpAddDrop => {
            if let Some(mp) = mp {
                let b = mp.add(ProgressBar::with_draw_target(Some(3), ProgressDrawTarget::hidden()));
                b.tick();
                drop(b);
            }
        }
        Call::MpRemoveShared => {
            if let Some(mp) = mp {
                mp.remove(pb);
                let _ = mp.add(pb.clone());
            }
        }
        Call::MpReinsert => {
            if let Some(mp) = mp {
                // (anchors are bars private to this thread: a shared anchor could be removed by another
                // thread in the meantime, and inserting relative to a non-member is a usage error)
                let sib = mp.add(ProgressBar::with_draw_target(Some(3), ProgressDrawTarget::hidden()));
                sib.tick();
                // the anchor is the inserted bar itself
                let _ = mp.insert_after(&sib, sib.clone());
                let _ = mp.insert_before(&sib, sib.clone());
                // the shared bar moves next to the private one
                let _ = mp.insert_after(&sib, pb.clone());
                let _ = mp.insert_before(&sib, pb.clone());
                drop(sib);
            }
        }
        Call::MpRemoveAdd => {
            if let Some(mp) = mp {
                let b = mp.add(ProgressBar::with_draw_target(Some(3), ProgressDrawTarget::hidden()));
                b.inc(1);
                mp.remove(&b);
            }
        }
    }
}

#[derive(Debug, Default)]
struct StressObs {
    events: usize,
    contended: u64,
    interleaving_sig: u64,
    edges: BTreeSet<(String, String)>,
    tickers_started: u64,
    tickers_exited: u64,
    potential_cycle: Option<Vec<String>>,
    /// a thread asked for a read lock on an RwLock it already holds for reading
    recursive_read: Option<String>,
}

fn short(class: &str) -> String {
    // "indicatif::state::BarState" -> "BarState"
    let c = class.replace("core::option::Option<", "Option<");
    c.rsplit("::").next().unwrap_or(class).trim_end_matches('>').to_string()
}

/// Lock-order graph (classes) from one run's events; a joiner holding a lock adds an edge to a
/// pseudo-node for the joined thread, which in turn points to every lock that thread requests.
fn analyse(events: &[vh::Event], workers: &BTreeSet<u32>) -> StressObs {
    let mut obs = StressObs { events: events.len(), ..Default::default() };
    let mut held: BTreeMap<u32, Vec<(usize, String)>> = BTreeMap::new();
    let mut read_held: BTreeMap<(u32, usize), u32> = BTreeMap::new();
    let mut owner: BTreeMap<usize, u32> = BTreeMap::new();
    let mut sig: u64 = 0;
    let mut thread_requests: BTreeMap<u32, BTreeSet<String>> = BTreeMap::new();
    let mut joins: Vec<(Vec<String>, u32)> = Vec::new();
    for e in events {
        match e {
            vh::Event::Request { t, lock, class, mode } => {
                let c = short(class);
                if *mode == vh::Mode::Read && read_held.get(&(*t, *lock)).copied().unwrap_or(0) > 0 {
                    obs.recursive_read = Some(c.clone());
                }
                if let Some(o) = owner.get(lock) {
                    if o != t {
                        obs.contended += 1;
                    }
                }
                for (_, h) in held.get(t).cloned().unwrap_or_default() {
                    obs.edges.insert((h, c.clone()));
                }
                thread_requests.entry(*t).or_default().insert(c.clone());
                sig = splitmix(sig ^ (*t as u64) << 32 ^ fnv1a(c.as_bytes()));
            }
            vh::Event::Acquired { t, lock, class, mode } => {
                if *mode == vh::Mode::Read {
                    *read_held.entry((*t, *lock)).or_default() += 1;
                }
                held.entry(*t).or_default().push((*lock, short(class)));
                owner.insert(*lock, *t);
            }
            vh::Event::Released { t, lock, mode, .. } => {
                if *mode == vh::Mode::Read {
                    if let Some(n) = read_held.get_mut(&(*t, *lock)) {
                        *n = n.saturating_sub(1);
                    }
                }
                if let Some(v) = held.get_mut(t) {
                    if let Some(i) = v.iter().rposition(|(l, _)| l == lock) {
                        v.remove(i);
                    }
                }
                if owner.get(lock) == Some(t) {
                    owner.remove(lock);
                }
            }
            vh::Event::JoinBegin { t, target } => {
                let h: Vec<String> = held.get(t).map(|v| v.iter().map(|(_, c)| c.clone()).collect()).unwrap_or_default();
                joins.push((h, *target));
            }
            vh::Event::Spawn { child, .. } => {
                if !workers.contains(child) {
                    obs.tickers_started += 1;
                }
            }
            vh::Event::ThreadExit { t } => {
                if !workers.contains(t) && *t != 0 {
                    obs.tickers_exited += 1;
                }
            }
            _ => {}
        }
    }
    for (h, target) in joins {
        for hc in &h {
            obs.edges.insert((hc.clone(), format!("thread#{}", if workers.contains(&target) { "worker" } else { "ticker" })));
        }
        if !h.is_empty() {
            for c in thread_requests.get(&target).cloned().unwrap_or_default() {
                obs.edges.insert((format!("thread#{}", if workers.contains(&target) { "worker" } else { "ticker" }), c));
            }
        }
    }
    obs.interleaving_sig = sig;
    // cycle search on the class graph
    let nodes: BTreeSet<String> = obs.edges.iter().flat_map(|(a, b)| [a.clone(), b.clone()]).collect();
    fn dfs(n: &str, edges: &BTreeSet<(String, String)>, stack: &mut Vec<String>, seen: &mut BTreeSet<String>) -> Option<Vec<String>> {
        if let Some(p) = stack.iter().position(|x| x == n) {
            let mut c = stack[p..].to_vec();
            c.push(n.to_string());
            return Some(c);
        }
        if !seen.insert(n.to_string()) {
            return None;
        }
        stack.push(n.to_string());
        for (a, b) in edges.iter() {
            if a == n && a != b {
                if let Some(c) = dfs(b, edges, stack, seen) {
                    return Some(c);
                }
            }
        }
        stack.pop();
        None
    }
    for n in &nodes {
        let mut seen = BTreeSet::new();
        if let Some(c) = dfs(n, &obs.edges, &mut Vec::new(), &mut seen) {
            obs.potential_cycle = Some(c);
            break;
        }
    }
    obs
}

/// A cycle of untimed waits in the wait-for tables (lock -> holder, join -> target).
fn find_deadlock(s: &vh::Snapshot) -> Option<String> {
    let mut waits: BTreeMap<u32, (Vec<u32>, String)> = BTreeMap::new();
    for (t, w) in &s.waiting {
        match w {
            vh::WaitFor::Lock { lock, class, mode } => {
                // a thread blocked on a lock it holds itself (std locks are not re-entrant) waits for ever
                // (a second read of a read-held RwLock is the one combination that may go through)
                if s.held.iter().any(|(l, v)| l == lock && v.iter().any(|(th, m)| th == t && !(*m == vh::Mode::Read && *mode == vh::Mode::Read))) {
                    return Some(format!("thread {t} waits for lock {} which it holds itself", short(class)));
                }
                // std's RwLock prefers writers: a second read by a thread that already holds a read lock queues
                // behind a writer that arrived in between, and that writer waits for the first read lock
                if *mode == vh::Mode::Read && s.held.iter().any(|(l, v)| l == lock && v.iter().any(|(th, m)| th == t && *m == vh::Mode::Read)) {
                    if let Some((w, _)) = s.waiting.iter().find(|(w, ww)| w != t && matches!(ww, vh::WaitFor::Lock { lock: l2, mode: vh::Mode::Write, .. } if l2 == lock)) {
                        return Some(format!("thread {t} holds a read lock on {} and waits for a second one behind writer thread {w}, which waits for the first", short(class)));
                    }
                }
                let holders: Vec<u32> = s.held.iter().filter(|(l, _)| l == lock).flat_map(|(_, v)| v.iter().map(|(th, _)| *th)).filter(|h| h != t).collect();
                if !holders.is_empty() {
                    waits.insert(*t, (holders, format!("lock {}", short(class))));
                }
            }
            vh::WaitFor::Join { target } => {
                if !s.exited.contains(target) {
                    waits.insert(*t, (vec![*target], format!("join of thread {target}")));
                }
            }
            vh::WaitFor::Cond { .. } => {}
        }
    }
    for start in waits.keys() {
        let mut path = vec![*start];
        let mut cur = *start;
        for _ in 0..waits.len() + 1 {
            let Some((next, _)) = waits.get(&cur) else { break };
            let n = next[0];
            if n == *start {
                let desc: Vec<String> = path.iter().map(|t| format!("thread {t} waits for {}", waits[t].1)).collect();
                return Some(desc.join("; "));
            }
            if path.contains(&n) {
                break;
            }
            path.push(n);
            cur = n;
        }
    }
    None
}

struct Scenario {
    multi: bool,
    spy_target: bool,
    initial_tick_ms: Option<u64>,
    threads: Vec<Vec<Call>>,
}

fn gen_scenario(rng: &mut Rng) -> Scenario {
    let multi = rng.chance(1, 3);
    let n_threads = rng.range(2, 3) as usize;
    Scenario {
        multi,
        spy_target: rng.chance(2, 3),
        initial_tick_ms: if rng.chance(1, 2) { Some(*rng.pick(&[1u64, 5, 1000, 3_600_000])) } else { None },
        threads: (0..n_threads).map(|_| (0..rng.range(1, 6)).map(|_| gen_call(rng, multi)).collect()).collect(),
    }
}

fn scenario_json(sc: &Scenario) -> J {
    J::obj()
        .with("multi", sc.multi)
        .with("visible_target", sc.spy_target)
        .with("initial_steady_tick_ms", sc.initial_tick_ms)
        .with("threads", J::Arr(sc.threads.iter().map(|t| J::from(format!("{t:?}"))).collect()))
}

enum RunEnd {
    Done(Vec<vh::Event>, BTreeSet<u32>, u64),
    Deadlock(String),
    Stuck(String),
}

/// Runs one scenario on fresh threads under a traced session; a watchdog samples the wait-for graph.
fn run_scenario(sc: &Scenario, seed: u64, directed: bool) -> RunEnd {
    let delay_seed = Arc::new(AtomicU64::new(seed | 1));
    let ds = delay_seed.clone();
    let delay = move |p: &vh::DelayPoint| {
        // xorshift on a shared word: cheap, racy on purpose (only a source of jitter)
        let mut x = ds.load(Ordering::Relaxed);
        x ^= x << 13;
        x ^= x >> 7;
        x ^= x << 17;
        ds.store(x, Ordering::Relaxed);
        let nested_second_lock = matches!(p.kind, vh::DelayKind::BeforeRequest) && (p.class.contains("Ticker") || (p.mode == vh::Mode::Read && p.class.contains("MultiState")));
        let r = x % 16;
        if directed && (nested_second_lock || matches!(p.kind, vh::DelayKind::BeforeJoin)) {
            std::thread::sleep(Duration::from_micros(300 + x % 700));
        } else if r == 0 {
            std::thread::sleep(Duration::from_micros(x % 200));
        } else if r < 4 {
            std::thread::yield_now();
        }
    };
    let session = vh::Session::new(None, true, Some(Box::new(delay)));
    let (tx, rx) = mpsc::channel::<(BTreeSet<u32>, u64)>();
    let s2 = session.clone();
    let multi = sc.multi;
    let spy_target = sc.spy_target;
    let initial = sc.initial_tick_ms;
    let threads = sc.threads.clone();
    std::thread::spawn(move || {
        vh::install(Some(s2));
        let spy = SpyTerm::new(40, 10, false);
        spy.state().snap_on_flush = false;
        let target = || if spy_target { ProgressDrawTarget::term_like(spy.boxed()) } else { ProgressDrawTarget::hidden() };
        let mp = multi.then(|| MultiProgress::with_draw_target(target()));
        let pb = match &mp {
            Some(mp) => mp.add(ProgressBar::with_draw_target(Some(100), ProgressDrawTarget::hidden())),
            None => ProgressBar::with_draw_target(Some(100), target()),
        };
        pb.set_style(ProgressStyle::with_template("{spinner} {pos}/{len} {msg}").unwrap());
        if let Some(ms) = initial {
            pb.enable_steady_tick(Duration::from_millis(ms));
        }
        let mut ids = BTreeSet::new();
        let handles: Vec<_> = threads
            .into_iter()
            .map(|calls| {
                let (pb, mp) = (pb.clone(), mp.clone());
                let h = vh::thread::spawn(move || {
                    for c in &calls {
                        do_call(c, &pb, &mp);
                    }
                });
                if let Some(id) = h.logical_id() {
                    ids.insert(id);
                }
                h
            })
            .collect();
        for h in handles {
            let _ = h.join();
        }
        // drop everything: the last handle stops a ticker that may still run
        drop(pb);
        drop(mp);
        let _ = tx.send((ids, spy.flushes()));
    });
    // watchdog: sample the wait-for graph; a cycle of untimed waits seen twice is a deadlock
    let t0 = Instant::now();
    let mut last_cycle: Option<String> = None;
    loop {
        match rx.recv_timeout(Duration::from_millis(15)) {
            Ok((ids, flushes)) => return RunEnd::Done(session.take_events(), ids, flushes),
            Err(mpsc::RecvTimeoutError::Disconnected) => return RunEnd::Stuck("scenario thread died".into()),
            Err(mpsc::RecvTimeoutError::Timeout) => {}
        }
        let snap = session.snapshot();
        match find_deadlock(&snap) {
            Some(c) => {
                if last_cycle.as_deref() == Some(c.as_str()) {
                    return RunEnd::Deadlock(c);
                }
                last_cycle = Some(c);
            }
            None => last_cycle = None,
        }
        // a joiner blocked on a thread that sits in a long timed wait: the stop request was lost
        for (t, w) in &snap.waiting {
            if let vh::WaitFor::Join { target } = w {
                if let Some((_, vh::WaitFor::Cond { timeout: Some(d), .. })) = snap.waiting.iter().find(|(x, _)| x == target) {
                    if *d >= Duration::from_secs(60) && t0.elapsed() > Duration::from_secs(8) {
                        return RunEnd::Deadlock(format!("thread {t} has been joining thread {target} for 8 s while that thread sits in a timed wait of {d:?}: the stop notification was lost"));
                    }
                }
            }
        }
        if t0.elapsed() > Duration::from_secs(30) {
            return RunEnd::Stuck(format!("watchdog: no progress for 30 s, waiting table {:?}", snap.waiting));
        }
    }
}

fn stress_case(seed: u64, idx: u64) -> CaseOut {
    let mut rng = Rng::derive(seed, 8, idx);
    let sc = gen_scenario(&mut rng);
    let replay = format!("s{seed}:{idx}");
    let mut co = CaseOut::held(fnv1a(format!("{:?}{:?}{}{:?}", sc.threads, sc.initial_tick_ms, sc.multi, sc.spy_target).as_bytes()), true);
    let w = scenario_json(&sc);
    let feats = |sc: &Scenario| {
        let mut f = BTreeSet::new();
        for t in &sc.threads {
            for c in t {
                f.insert(format!("{c:?}").split('(').next().unwrap().to_lowercase());
            }
        }
        if sc.initial_tick_ms.is_some() {
            f.insert("steady-tick".into());
        }
        f.into_iter().collect::<Vec<_>>()
    };
    for rep in 0..3u64 {
        match run_scenario(&sc, splitmix(seed ^ idx ^ rep), rep == 2) {
            RunEnd::Done(events, workers, flushes) => {
                let obs = analyse(&events, &workers);
                co.count("lock_events", obs.events as u64);
                co.count("contended_acquisitions", obs.contended);
                co.count("ticker_threads_started", obs.tickers_started);
                co.count("ticker_threads_exited", obs.tickers_exited);
                co.count("frames_painted", flushes);
                co.count("stress_runs", 1);
                co.see("interleaving_signatures", obs.interleaving_sig);
                for e in &obs.edges {
                    co.see("lock_order_edges", fnv1a(format!("{e:?}").as_bytes()));
                }
                if obs.tickers_started != obs.tickers_exited {
                    co.verdict = viol(
                        "ticker-thread-leaked",
                        feats(&sc),
                        format!("{} ticker threads were started, {} had exited when the last handle was dropped", obs.tickers_started, obs.tickers_exited),
                        w.clone(),
                        replay.clone(),
                    );
                    return co;
                }
                if let Some(class) = obs.recursive_read {
                    // std: "read() might panic [or deadlock] when the lock is already held by the current thread";
                    // directed re-runs (a pause before every read request lets a writer queue up) try to show it
                    let mut confirmed = None;
                    for k in 0..40u64 {
                        if let RunEnd::Deadlock(d) = run_scenario(&sc, splitmix(seed ^ idx ^ (k + 500)), true) {
                            confirmed = Some(d);
                            break;
                        }
                    }
                    co.verdict = match confirmed {
                        Some(d) => viol("deadlock", vec!["recursive-read-lock-confirmed".into()], format!("a thread takes a second read lock on {class} while holding one; directed run: {d}"), w.clone(), replay.clone()),
                        None => viol("recursive-read-lock", vec![class.clone()], format!("a thread requested a read lock on the {class} RwLock while already holding one: with a writer queued in between (any concurrent println/add/remove/draw) both block for ever"), w.clone(), replay.clone()),
                    };
                    return co;
                }
                if let Some(c) = obs.potential_cycle {
                    // confirm by directed re-runs; an inversion that never manifests is only noted
                    let mut confirmed = None;
                    for k in 0..40u64 {
                        if let RunEnd::Deadlock(d) = run_scenario(&sc, splitmix(seed ^ idx ^ (k + 100)), true) {
                            confirmed = Some(d);
                            break;
                        }
                    }
                    match confirmed {
                        Some(d) => {
                            co.verdict = viol("deadlock", vec!["lock-order-cycle-confirmed".into()], format!("lock-order cycle {c:?} confirmed by a directed run: {d}"), w.clone(), replay.clone());
                            return co;
                        }
                        None => co.count("lock_order_cycles_not_confirmed", 1),
                    }
                }
            }
            RunEnd::Deadlock(d) => {
                co.verdict = viol("deadlock", feats(&sc), format!("threads blocked for good: {d}"), w.clone(), replay.clone());
                return co;
            }
            RunEnd::Stuck(s) => {
                co.verdict = Verdict::Inconclusive(format!("watchdog: {}", s.chars().take(100).collect::<String>()));
                return co;
            }
        }
    }
    if idx < 3 {
        co.sample = Some(w);
    }
    co
}

// ------------------------------------------------------------------------------------------------
// ticker lifecycle (ordering of events, no timing verdicts)
// ------------------------------------------------------------------------------------------------

fn wait_until(mut f: impl FnMut() -> bool, max: Duration) -> bool {
    let t0 = Instant::now();
    while t0.elapsed() < max {
        if f() {
            return true;
        }
        std::thread::sleep(Duration::from_micros(200));
    }
    f()
}

fn lifecycle_case(seed: u64, idx: u64) -> CaseOut {
    let mut rng = Rng::derive(seed, 88, idx);
    let interval_ms = *rng.pick(&[1u64, 5, 1000, 3_600_000]);
    let variant = idx % 5;
    let replay = format!("l{seed}:{idx}");
    let names = ["disable", "replace", "drop-last-handle", "finish", "manual-tick-is-inert"];
    let w = J::obj().with("variant", names[variant as usize]).with("interval_ms", interval_ms);
    let mut co = CaseOut::held(fnv1a(format!("{variant}:{interval_ms}:{idx}").as_bytes()), true);
    let feats = vec![names[variant as usize].to_string(), format!("interval-{interval_ms}ms")];
    let result: Arc<Mutex<Option<Result<(), (String, String)>>>> = Arc::new(Mutex::new(None));
    let session = vh::Session::new(None, true, None);
    let (r2, s2) = (result.clone(), session.clone());
    let t0 = Instant::now();
    std::thread::spawn(move || {
        vh::install(Some(s2.clone()));
        let spy = SpyTerm::new(40, 10, false);
        spy.state().snap_on_flush = false;
        spy.state().record_flush_threads = true;
        let pb = ProgressBar::with_draw_target(Some(10), ProgressDrawTarget::term_like(spy.boxed()));
        pb.set_style(ProgressStyle::with_template("{spinner}").unwrap().tick_strings(&["a", "b", "c", "d", "Z"]));
        let live_tickers = |s: &vh::Session| s.snapshot().live.iter().filter(|t| **t != 0).count();
        let ticker_flushes = |spy: &SpyTerm| spy.state().flush_logical.iter().filter(|t| matches!(t, Some(x) if *x != 0)).count();
        let res: Result<(), (String, String)> = (|| {
            pb.enable_steady_tick(Duration::from_millis(interval_ms));
            // the ticker redraws the bar without manual ticks (bounded progress, not a deadline verdict)
            let need = if interval_ms <= 5 { 3 } else { 1 };
            if !wait_until(|| ticker_flushes(&spy) >= need, Duration::from_secs(4)) {
                return Err(("ticker-does-not-redraw".into(), format!("{} frames from the ticker thread after 4 s (interval {interval_ms} ms)", ticker_flushes(&spy))));
            }
            match variant {
                0 => {
                    pb.disable_steady_tick();
                    if live_tickers(&s2) != 0 {
                        return Err(("ticker-outlives-stop".into(), "disable_steady_tick() returned while the ticker thread was still alive".into()));
                    }
                    let n = ticker_flushes(&spy);
                    std::thread::sleep(Duration::from_millis(3));
                    if ticker_flushes(&spy) != n {
                        return Err(("ticker-draws-after-stop".into(), "frames from the ticker thread after disable_steady_tick() returned".into()));
                    }
                }
                1 => {
                    pb.enable_steady_tick(Duration::from_millis(*[1u64, 5, 3_600_000].get((idx / 5 % 3) as usize).unwrap()));
                    if live_tickers(&s2) != 1 {
                        return Err(("ticker-outlives-stop".into(), format!("{} ticker threads alive after replacing the steady tick", live_tickers(&s2))));
                    }
                    pb.disable_steady_tick();
                }
                2 => {
                    let extra = pb.clone();
                    drop(pb.clone());
                    drop(extra);
                    let spy2 = spy.clone();
                    drop(pb);
                    if live_tickers(&s2) != 0 {
                        return Err(("ticker-outlives-stop".into(), "dropping the last handle returned while the ticker thread was still alive".into()));
                    }
                    let _ = spy2;
                    return Ok(());
                }
                3 => {
                    pb.finish();
                    let n = ticker_flushes(&spy);
                    if interval_ms <= 5 {
                        // exits no later than its next wake-up
                        if !wait_until(|| live_tickers(&s2) == 0, Duration::from_secs(4)) {
                            return Err(("ticker-does-not-stop-when-finished".into(), "the ticker thread is still alive 4 s after finish() (interval <= 5 ms)".into()));
                        }
                    } else {
                        std::thread::sleep(Duration::from_millis(3));
                    }
                    if ticker_flushes(&spy) != n {
                        return Err(("ticker-draws-after-finish".into(), "a frame from the ticker thread after finish() returned".into()));
                    }
                    if interval_ms <= 5 {
                        // the bar is brought back with reset() and asks for the same steady tick again: the ticker that
                        // left when it saw the finished bar must not be mistaken for a running one (round 11)
                        pb.reset();
                        let n2 = ticker_flushes(&spy);
                        pb.enable_steady_tick(Duration::from_millis(interval_ms));
                        if !wait_until(|| ticker_flushes(&spy) >= n2 + need, Duration::from_secs(4)) {
                            return Err((
                                "ticker-does-not-redraw".into(),
                                format!("finish(), reset(), enable_steady_tick({interval_ms} ms) again: {} frames from a ticker thread after 4 s", ticker_flushes(&spy) - n2),
                            ));
                        }
                    }
                }
                _ => {
                    // while a ticker is installed, manual tick() is inert
                    if interval_ms < 1000 {
                        pb.disable_steady_tick();
                        pb.enable_steady_tick(Duration::from_secs(3600));
                        wait_until(|| live_tickers(&s2) == 1 && ticker_flushes(&spy) >= need + 1, Duration::from_secs(4));
                    }
                    std::thread::sleep(Duration::from_millis(2));
                    let (calls, rows) = (spy.calls(), spy.state().screen.all_rows());
                    for _ in 0..5 {
                        pb.tick();
                    }
                    if spy.calls() != calls || spy.state().screen.all_rows() != rows {
                        return Err(("manual-tick-not-inert".into(), format!("tick() with a steady ticker installed caused {} terminal calls; spinner {:?} -> {:?}", spy.calls() - calls, rows, spy.state().screen.all_rows())));
                    }
                }
            }
            drop(pb);
            if live_tickers(&s2) != 0 {
                return Err(("ticker-outlives-stop".into(), "ticker thread alive after the last handle was dropped".into()));
            }
            Ok(())
        })();
        *r2.lock().unwrap() = Some(res);
    });
    // the whole variant must complete: stopping is independent of the tick interval
    let done = wait_until(|| result.lock().unwrap().is_some(), Duration::from_secs(25));
    if !done {
        let snap = session.snapshot();
        let lost = snap.waiting.iter().any(|(_, w)| matches!(w, vh::WaitFor::Join { target } if snap.waiting.iter().any(|(x, ww)| x == target && matches!(ww, vh::WaitFor::Cond { timeout: Some(d), .. } if *d >= Duration::from_secs(60)))));
        if lost {
            co.verdict = viol("ticker-stop-lost-wakeup", feats, format!("after {:?}: a thread is joining the ticker while the ticker sits in a timed wait of an hour with its stop requested", t0.elapsed()), w, replay);
        } else if let Some(d) = find_deadlock(&snap) {
            co.verdict = viol("deadlock", feats, d, w, replay);
        } else {
            co.verdict = Verdict::Inconclusive("lifecycle variant did not complete within the watchdog".into());
        }
        return co;
    }
    let res = result.lock().unwrap().take().unwrap();
    if let Err((rule, d)) = res {
        co.verdict = viol(&rule, feats, d, w.clone(), replay);
    }
    co.count("ticker_lifecycle_runs", 1);
    co.see("lifecycle_variants", variant * 10 + [1, 5, 1000, 3_600_000].iter().position(|x| *x == interval_ms).unwrap_or(9) as u64);
    if idx < 5 {
        co.sample = Some(w);
    }
    co
}

// ---- replace window: manual ticks stay inert while one steady ticker is being replaced by another ---------
// A terminal whose flush() can be held by a gate parks the old ticker thread in the middle of its tick (it
// holds the bar state there). Thread A replaces the ticker (enable_steady_tick again: stop + join of the old
// thread, which cannot finish yet), thread B calls tick()/inc(). Then the gate opens. A steady ticker was
// installed before and after the replacement, so the manual call must not have advanced the spinner: the
// frames show the old ticker's tick and the new ticker's first tick, nothing else.

struct GateTerm {
    frames: Mutex<Vec<String>>,
    line: Mutex<String>,
    armed: std::sync::atomic::AtomicBool,
    parked: std::sync::atomic::AtomicBool,
    open: std::sync::atomic::AtomicBool,
    main: std::thread::ThreadId,
}

#[derive(Clone)]
struct GateTermHandle(Arc<GateTerm>);

impl std::fmt::Debug for GateTermHandle {
    fn fmt(&self, f: &mut std::fmt::Formatter<'_>) -> std::fmt::Result {
        f.write_str("GateTerm")
    }
}

impl indicatif::TermLike for GateTermHandle {
    fn width(&self) -> u16 {
        40
    }
    fn height(&self) -> u16 {
        10
    }
    fn move_cursor_up(&self, _: usize) -> std::io::Result<()> {
        Ok(())
    }
    fn move_cursor_down(&self, _: usize) -> std::io::Result<()> {
        Ok(())
    }
    fn move_cursor_right(&self, _: usize) -> std::io::Result<()> {
        Ok(())
    }
    fn move_cursor_left(&self, _: usize) -> std::io::Result<()> {
        Ok(())
    }
    fn write_line(&self, s: &str) -> std::io::Result<()> {
        self.0.line.lock().unwrap().push_str(s);
        Ok(())
    }
    fn write_str(&self, s: &str) -> std::io::Result<()> {
        self.0.line.lock().unwrap().push_str(s);
        Ok(())
    }
    fn clear_line(&self) -> std::io::Result<()> {
        Ok(())
    }
    fn flush(&self) -> std::io::Result<()> {
        use std::sync::atomic::Ordering::SeqCst;
        let text = std::mem::take(&mut *self.0.line.lock().unwrap());
        if !text.trim().is_empty() {
            self.0.frames.lock().unwrap().push(text.trim().to_string());
        }
        if self.0.armed.swap(false, SeqCst) && std::thread::current().id() != self.0.main {
            self.0.parked.store(true, SeqCst);
            let t0 = Instant::now();
            while !self.0.open.load(SeqCst) && t0.elapsed() < Duration::from_secs(5) {
                std::thread::sleep(Duration::from_micros(200));
            }
        }
        Ok(())
    }
}

fn replace_window_case(seed: u64, idx: u64) -> CaseOut {
    use std::sync::atomic::Ordering::SeqCst;
    let mut rng = Rng::derive(seed, 808, idx);
    let replay = format!("p{seed}:{idx}");
    let manual = rng.below(3);
    let manual_name = ["tick", "inc", "set_position"][manual as usize];
    let settle_us = *rng.pick(&[500u64, 2_000, 5_000]);
    let w = J::obj().with("manual_call", manual_name).with("settle_us", settle_us);
    let feats = vec!["replace".to_string(), "manual-tick-is-inert".to_string(), manual_name.to_string()];
    let mut co = CaseOut::held(fnv1a(format!("{manual}{settle_us}{idx}").as_bytes()), true);
    let term = Arc::new(GateTerm {
        frames: Mutex::new(Vec::new()),
        line: Mutex::new(String::new()),
        armed: std::sync::atomic::AtomicBool::new(false),
        parked: std::sync::atomic::AtomicBool::new(false),
        open: std::sync::atomic::AtomicBool::new(false),
        main: std::thread::current().id(),
    });
    let pb = ProgressBar::with_draw_target(Some(100), ProgressDrawTarget::term_like(Box::new(GateTermHandle(term.clone()))));
    pb.set_style(ProgressStyle::with_template("{spinner}").unwrap().tick_strings(&["0", "1", "2", "3", "4", "5", "6", "Z"]));
    term.armed.store(true, SeqCst);
    pb.enable_steady_tick(Duration::from_secs(3600));
    if !wait_until(|| term.parked.load(SeqCst), Duration::from_secs(3)) {
        term.open.store(true, SeqCst);
        pb.disable_steady_tick();
        co.verdict = Verdict::Inconclusive("the first tick of the steady ticker never reached the terminal".into());
        return co;
    }
    let (pa, pb2) = (pb.clone(), pb.clone());
    let returned = Arc::new(AtomicU64::new(0));
    let (ra, rb) = (returned.clone(), returned.clone());
    let a = std::thread::spawn(move || {
        pa.enable_steady_tick(Duration::from_secs(7200));
        ra.fetch_add(1, Ordering::SeqCst);
    });
    std::thread::sleep(Duration::from_micros(settle_us));
    let b = std::thread::spawn(move || {
        match manual {
            0 => pb2.tick(),
            1 => pb2.inc(1),
            _ => pb2.set_position(7),
        }
        rb.fetch_add(1, Ordering::SeqCst);
    });
    std::thread::sleep(Duration::from_micros(settle_us));
    term.open.store(true, SeqCst);
    // bounded progress: with the terminal free again both calls return, whatever the tick intervals are
    if !wait_until(|| returned.load(Ordering::SeqCst) == 2, Duration::from_secs(6)) {
        co.verdict = Verdict::Violated(Box::new(Violation {
            rule: "ticker-replace-blocks".into(),
            features: feats,
            detail: format!("replacing a 1 h steady ticker by a 2 h one (with {manual_name}() on another thread) did not return within 6 s after the terminal became free again: {} of 2 calls returned", returned.load(Ordering::SeqCst)),
            witness: w,
            replay,
        }));
        // the blocked threads are left behind (they hold their own handles)
        drop(a);
        drop(b);
        std::mem::forget(pb);
        return co;
    }
    let _ = a.join();
    let _ = b.join();
    // the new ticker ticks once right away; give it a moment, then stop everything
    let _ = wait_until(|| term.frames.lock().unwrap().len() >= 2, Duration::from_secs(2));
    pb.disable_steady_tick();
    let frames = term.frames.lock().unwrap().clone();
    // every frame shows the spinner; its highest value is the number of ticks that advanced it
    let highest = frames.iter().filter_map(|f| f.chars().next().and_then(|c| c.to_digit(10))).max().unwrap_or(0);
    if highest > 2 {
        co.verdict = Verdict::Violated(Box::new(Violation {
            rule: "manual-tick-advanced-spinner".into(),
            features: feats,
            detail: format!(
                "{manual_name}() on another thread while enable_steady_tick() was replacing a running ticker advanced the spinner: frames {frames:?} (the two ticker threads account for 2 ticks)"
            ),
            witness: w,
            replay,
        }));
    }
    pb.abandon();
    co.count("replace_windows_exercised", 1);
    co
}

pub fn run(cfg: &RunCfg) -> PropResult {
    let report = if let Some(case) = &cfg.case {
        let life = case.starts_with('l');
        let mut it = case[1..].split(':');
        let seed: u64 = it.next().and_then(|s| s.parse().ok()).unwrap_or(cfg.seed);
        let idx: u64 = it.next().and_then(|s| s.parse().ok()).unwrap_or(0);
        let mut r = crate::report::Report::default();
        r.add(idx, if case.starts_with('p') { replace_window_case(seed, idx) } else if life { lifecycle_case(seed, idx) } else { stress_case(seed, idx) });
        r
    } else {
        let ns = if cfg.thorough { 60_000 } else { 1_500 };
        let nl = if cfg.thorough { 6_000 } else { 200 };
        // every scenario brings 3-5 threads of its own
        let mut r = crate::report::run_parallel_tagged('s', ns, 6, |i| stress_case(cfg.seed, i));
        r.merge(crate::report::run_parallel_tagged('l', nl, 8, |i| lifecycle_case(cfg.seed, i)));
        let np = if cfg.thorough { 3_000 } else { 120 };
        r.merge(crate::report::run_parallel_tagged('p', np, 8, |i| replace_window_case(cfg.seed, i)));
        r
    };
    PropResult {
        report,
        rule: "stress evaluations: a scenario of 2-3 threads x 1-6 public calls (update, tick, inc, set_message, enable/disable_steady_tick with 1 ms / 5 ms / 1 s / 1 h, finish, println, suspend, reset, clone+drop, getters, mp.println, add+drop, add+remove) on one shared bar (hidden, visible, or inside a MultiProgress), optionally with a steady ticker already running, executed 3 times with different seeded delay schedules (the third with directed delays in front of nested lock requests and joins) under a wait-for-graph watchdog; lifecycle evaluations: disable / replace / drop-last-handle / finish / manual-tick-is-inert for each tick interval; replace-window evaluations: the old ticker's tick is held inside the terminal's flush() while one thread replaces the ticker and another calls tick/inc/set_position - the spinner must show the two tickers' ticks only; distinct = scenario hash".into(),
        exhaustive: false,
    }
}
