//! C10: template parsing is total and preserves literal text.
//! A: arbitrary strings must yield Ok or Err, never a panic.
//! B: grammar-generated templates must render as the in-order concatenation of literals and
//!    placeholder expansions (reference = the AST's own rendering).

use super::c12::{ref_field, Align};
use super::{PropResult, RunCfg};
use crate::json::J;
use crate::prng::{fnv1a, Rng};
use crate::rend::render_with;
use crate::report::{run_parallel, workers, CaseOut, Verdict, Violation};
use indicatif::ProgressStyle;
use std::panic::catch_unwind;

#[derive(Clone, Debug)]
enum Node {
    /// literal text (may contain '{' and '}' which are written escaped)
    Lit(String),
    /// `{` followed by a whitespace character, standing for itself
    BraceWs(char),
    Ph { key: &'static str, colon: bool, align: Option<Align>, width: Option<u128>, trunc: bool, style: Option<String>, alt: Option<String> },
    NL,
}

const KEYS: [&str; 6] = ["msg", "prefix", "pos", "len", "nosuchkey", "zz_top"];

fn gen_ast(rng: &mut Rng) -> Vec<Node> {
    let n = rng.range(1, 9);
    let mut v = Vec::new();
    for _ in 0..n {
        match rng.below(10) {
            0..=3 => {
                let len = rng.range(1, 6);
                let alphabet: &[char] = &['a', 'b', 'Z', ' ', '{', '}', ':', '"', ',', '!', '.', '/', '<', '7', 'é', '世', '[', ']'];
                let mut s: String = (0..len).map(|_| *rng.pick(alphabet)).collect();
                // a literal '{' directly in front of whitespace is the BraceWs production; keep
                // literals unambiguous by not ending them with '{' or starting with whitespace after one
                while s.contains("{ ") {
                    s = s.replace("{ ", "{x");
                }
                v.push(Node::Lit(s));
            }
            4 => v.push(Node::BraceWs(match rng.below(6) { 0 => '\t', 1 => '\n', _ => ' ' })),
            // one `{wide_msg}` anywhere in the template (first, middle or last line): its expansion goes
            // through a scratch buffer shared with the other placeholders
            9 if !v.iter().any(|n| matches!(n, Node::Ph { key: "wide_msg", .. })) && rng.chance(1, 2) => {
                // (optionally aligned: the padding in front of a right- or centre-aligned message is part of the line)
                let align = if rng.chance(1, 2) { Some(*rng.pick(&[Align::Left, Align::Center, Align::Right])) } else { None };
                v.push(Node::Ph { key: "wide_msg", colon: align.is_some(), align, width: None, trunc: false, style: None, alt: None })
            }
            5 if v.len() < 12 && rng.chance(1, 2) => v.push(Node::NL),
            _ => {
                let colon = rng.chance(3, 4);
                let align = if colon && rng.chance(1, 2) { Some(*rng.pick(&[Align::Left, Align::Center, Align::Right])) } else { None };
                let width = if colon && rng.chance(2, 3) {
                    Some(match rng.below(12) {
                        0 => 0,
                        1 => 65535,
                        2 => 65536,
                        3 => rng.range(65536, 70000) as u128,
                        4 => 99999,
                        5 => rng.range(100_000, u64::MAX / 2) as u128,
                        6 => {
                            // beyond every machine word: 20-38 digits
                            let digits = rng.range(20, 38);
                            let mut v: u128 = rng.range(1, 9) as u128;
                            for _ in 1..digits {
                                v = v * 10 + rng.range(0, 9) as u128;
                            }
                            v
                        }
                        7 => *rng.pick(&[u64::MAX as u128, u64::MAX as u128 + 1, u32::MAX as u128, u32::MAX as u128 + 1, u128::MAX]),
                        _ => rng.range(1, 40) as u128,
                    })
                } else {
                    None
                };
                let trunc = colon && rng.chance(1, 3);
                let style = if colon && rng.chance(1, 3) { Some(rng.pick(&["red", "bold.on_blue", "cyan.dim", "x"]).to_string()) } else { None };
                let alt = if style.is_some() && rng.chance(1, 2) { Some(rng.pick(&["blue", "green.on_black"]).to_string()) } else { None };
                v.push(Node::Ph { key: KEYS[rng.usize(KEYS.len())], colon, align, width, trunc, style, alt });
            }
        }
    }
    // a literal must not end in '{' when whitespace follows (that would be BraceWs) -- fix up
    let mut out: Vec<Node> = Vec::new();
    for node in v {
        if let (Some(Node::Lit(prev)), Node::Lit(cur)) = (out.last_mut(), &node) {
            prev.push_str(cur);
            while prev.contains("{ ") {
                *prev = prev.replace("{ ", "{x");
            }
            continue;
        }
        out.push(node);
    }
    out
}

fn to_template(ast: &[Node]) -> String {
    let mut s = String::new();
    for n in ast {
        match n {
            Node::Lit(l) => {
                for c in l.chars() {
                    match c {
                        '{' => s.push_str("{{"),
                        '}' => s.push_str("}}"),
                        c => s.push(c),
                    }
                }
            }
            Node::BraceWs(c) => {
                s.push('{');
                s.push(*c);
            }
            Node::NL => s.push('\n'),
            Node::Ph { key, colon, align, width, trunc, style, alt } => {
                s.push('{');
                s.push_str(key);
                if *colon {
                    s.push(':');
                    if let Some(a) = align {
                        s.push_str(a.ch());
                    }
                    if let Some(w) = width {
                        s.push_str(&w.to_string());
                    }
                    if *trunc {
                        s.push('!');
                    }
                    if let Some(st) = style {
                        s.push('.');
                        s.push_str(st);
                        if let Some(a) = alt {
                            s.push('/');
                            s.push_str(a);
                        }
                    }
                }
                s.push('}');
            }
        }
    }
    s
}

/// Reference rendering: lines of acceptable texts (alternatives only differ in centre rounding).
fn reference(ast: &[Node], msg: &str, prefix: &str, pos: u64, len: u64, tabw: usize) -> Vec<Vec<String>> {
    let mut lines: Vec<Vec<String>> = vec![vec![String::new()]];
    for n in ast {
        let alts: Vec<String> = match n {
            Node::Lit(l) => vec![l.clone()],
            Node::BraceWs('\n') => {
                // the brace stands for itself and the newline ends the line
                for c in lines.last_mut().unwrap().iter_mut() {
                    c.push('{');
                }
                lines.push(vec![String::new()]);
                continue;
            }
            Node::BraceWs(c) => vec![format!("{{{}", if *c == '\t' { " ".repeat(tabw) } else { c.to_string() })],
            Node::NL => {
                lines.push(vec![String::new()]);
                continue;
            }
            Node::Ph { key, align, width, trunc, .. } => {
                let val = match *key {
                    "wide_msg" => "\u{0}".to_string(),
                    "msg" => msg.to_string(),
                    "prefix" => prefix.to_string(),
                    "pos" => pos.to_string(),
                    "len" => len.to_string(),
                    _ => String::new(),
                };
                match width {
                    Some(w) => ref_field(&val, *w as usize, align.unwrap_or(Align::Left), *trunc),
                    None => vec![val],
                }
            }
        };
        let cur = lines.last_mut().unwrap();
        let mut next = Vec::new();
        for c in cur.iter() {
            for a in &alts {
                next.push(format!("{c}{a}"));
            }
        }
        next.truncate(8);
        *cur = next;
    }
    if lines.last().map(|l| l.iter().all(|x| x.is_empty())).unwrap_or(false) {
        lines.pop();
    }
    // the wide element takes what the rest of its line leaves of the terminal; at the very end of a
    // line its padding is dropped
    let wide_align = ast
        .iter()
        .find_map(|n| match n {
            Node::Ph { key: "wide_msg", align, .. } => Some(align.unwrap_or(Align::Left)),
            _ => None,
        })
        .unwrap_or(Align::Left);
    for alts in lines.iter_mut() {
        let mut out: Vec<String> = Vec::new();
        for a in alts.iter() {
            if let Some(at) = a.find('\u{0}') {
                let rest = crate::vscreen::cols_of(&a.replace('\u{0}', ""));
                let left = TERM_WIDTH.saturating_sub(rest);
                // a truncating field of `left` columns, aligned as asked (centre: either rounding)
                for mut field in ref_field(msg, left, wide_align, true) {
                    if at + 1 == a.len() {
                        field.truncate(field.trim_end().len());
                    }
                    out.push(a.replace('\u{0}', &field));
                }
            } else {
                out.push(a.clone());
            }
        }
        out.dedup();
        out.truncate(16);
        *alts = out;
    }
    lines
}

const TERM_WIDTH: usize = 200;

fn max_width(ast: &[Node]) -> u128 {
    ast.iter()
        .filter_map(|n| match n {
            Node::Ph { width, .. } => *width,
            _ => None,
        })
        .max()
        .unwrap_or(0)
}

fn parse_total(s: &str) -> Result<bool, String> {
    let s1 = s.to_string();
    let a = catch_unwind(move || ProgressStyle::with_template(&s1).is_ok());
    let s2 = s.to_string();
    let b = catch_unwind(move || ProgressStyle::default_spinner().template(&s2).is_ok());
    match (a, b) {
        (Ok(x), Ok(y)) if x == y => Ok(x),
        (Ok(x), Ok(y)) => Err(format!("with_template -> ok={x} but template() -> ok={y}")),
        (Err(p), _) | (_, Err(p)) => Err(format!("panicked: {}", crate::world::panic_message(&p))),
    }
}

fn random_string(rng: &mut Rng) -> String {
    let n = rng.range(0, 64);
    let alphabet: &[char] = &['{', '}', ':', '<', '^', '>', '!', '.', '/', '0', '1', '9', '5', '\n', '\t', ' ', 'a', 'm', 's', 'g', '_', 'é', '世', '\u{301}', '\u{0}', '%'];
    (0..n)
        .map(|_| {
            if rng.chance(1, 12) {
                char::from_u32(rng.below(0x11_0000) as u32).unwrap_or('?')
            } else {
                *rng.pick(alphabet)
            }
        })
        .collect()
}

fn mutate(rng: &mut Rng, s: &str) -> String {
    let mut chars: Vec<char> = s.chars().collect();
    if chars.is_empty() {
        return "{".into();
    }
    let i = rng.usize(chars.len());
    match rng.below(4) {
        0 => {
            chars.remove(i);
        }
        1 => {
            let c = chars[i];
            chars.insert(i, c);
        }
        2 => chars.insert(i, *rng.pick(&['{', '}', ':', '!', '9', ' ', '.', '/'])),
        _ => chars[i] = *rng.pick(&['{', '}', ':', '!', '9', ' ', '\n']),
    }
    chars.into_iter().collect()
}

fn viol(rule: &str, feat: &str, detail: String, w: J, replay: String) -> Verdict {
    Verdict::Violated(Box::new(Violation { rule: rule.into(), features: vec![feat.into()], detail, witness: w, replay }))
}

fn run_case(seed: u64, idx: u64) -> CaseOut {
    let mut rng = Rng::derive(seed, 10, idx);
    let replay = format!("{seed}:{idx}");
    let ast = gen_ast(&mut rng);
    let tmpl = to_template(&ast);
    let mut co = CaseOut::held(fnv1a(tmpl.as_bytes()), ast.iter().any(|n| matches!(n, Node::Ph { .. })));
    let mut parsed = 0u64;
    // ---- A: totality ---------------------------------------------------------------------------
    let mut strings = vec![tmpl.clone()];
    for _ in 0..4 {
        strings.push(mutate(&mut rng, &tmpl));
    }
    for _ in 0..6 {
        strings.push(random_string(&mut rng));
    }
    // numeric fields of any length (they must be rejected, not unwrapped, when they do not fit)
    let digits: String = (0..rng.range(1, 45)).map(|_| char::from(b'0' + rng.below(10) as u8)).collect();
    strings.push(format!("{{{}:{}{}{}}}", KEYS[rng.usize(KEYS.len())], ["", "<", "^", ">"][rng.usize(4)], digits, if rng.chance(1, 2) { "!" } else { "" }));
    for s in &strings {
        parsed += 1;
        if let Err(e) = parse_total(s) {
            let feat = if s.chars().filter(|c| c.is_ascii_digit()).count() >= 5 { "numeric-width" } else { "other" };
            co.verdict = viol("parse-panic", feat, format!("template {s:?}: {e}"), J::from(s.clone()), replay);
            co.count("strings_parsed", parsed);
            return co;
        }
    }
    co.count("strings_parsed", parsed);
    // ---- B: fidelity ---------------------------------------------------------------------------
    let too_wide = max_width(&ast) > u16::MAX as u128;
    let accepted = ProgressStyle::with_template(&tmpl);
    if too_wide {
        if accepted.is_ok() {
            co.verdict = viol("oversized-width-accepted", "numeric-width", format!("template {tmpl:?} has a width beyond u16::MAX but was accepted"), J::from(tmpl.clone()), replay);
        }
        co.count("oversized_width_templates", 1);
        return co;
    }
    let style = match accepted {
        Ok(s) => s,
        Err(e) => {
            co.verdict = viol("wellformed-rejected", "grammar", format!("well-formed template {tmpl:?} rejected: {e}"), J::from(tmpl.clone()), replay);
            return co;
        }
    };
    let msg = match rng.below(4) {
        0 => String::new(),
        1 => "m".to_string(),
        _ => format!("msg{}", rng.range(0, 99999)),
    };
    let prefix = if rng.chance(1, 2) { String::new() } else { "pre".to_string() };
    let pos = rng.range(0, 5000);
    let len = rng.range(0, 5000);
    let (m, p) = (msg.clone(), prefix.clone());
    // the style reaches the bar freshly parsed, or as the bar's own style() given this template; the tab
    // width is the default or one set on the bar (a literal TAB can only come from '{' + TAB)
    let tabw = *rng.pick(&[8usize, 8, 8, 2, 4, 0]);
    let restyle = rng.chance(1, 3);
    let t2 = tmpl.clone();
    let r = render_with(TERM_WIDTH as u16, Some(len), if restyle { ProgressStyle::default_bar() } else { style }, move |pb| {
        if tabw != 8 {
            pb.set_tab_width(tabw);
        }
        if restyle {
            pb.set_style(pb.style().template(&t2).unwrap());
        }
        pb.set_message(m);
        pb.set_prefix(p);
        pb.set_position(pos);
    });
    let want = reference(&ast, &msg, &prefix, pos, len, tabw);
    let w = J::obj().with("template", tmpl.clone()).with("tab_width", tabw).with("installed_via", if restyle { "pb.style().template(..)" } else { "with_template" }).with("msg", msg.clone()).with("prefix", prefix.clone()).with("pos", pos).with("len", len);
    let brace_ws = ast.windows(2).any(|w| matches!((&w[0], &w[1]), (Node::Lit(_) | Node::Ph { .. }, Node::BraceWs(_))));
    let feat = if brace_ws { "text-before-brace-whitespace" } else if ast.iter().any(|n| matches!(n, Node::BraceWs(_))) { "brace-whitespace" } else { "grammar" };
    match r {
        Err(p) => co.verdict = viol("render-panic", feat, format!("rendering {tmpl:?} panicked: {p}"), w, replay),
        Ok(r) => {
            // (the reference already leaves out a final empty template line, which is what the
            // statement allows; an empty line anywhere else must be there)
            let mut got = r.lines.clone();
            if got.len() == want.len() + 1 && got.last().map(|l| l.is_empty()).unwrap_or(false) {
                got.pop();
            }
            let ok = got.len() == want.len() && got.iter().zip(&want).all(|(g, alts)| alts.iter().any(|a| a == g));
            if !ok {
                let rule = if got.len() != want.len() { "line-count" } else { "literal-or-expansion-text" };
                co.verdict = viol(rule, feat, format!("template {tmpl:?} rendered {got:?}, expected {:?}", want.iter().map(|a| a[0].clone()).collect::<Vec<_>>()), w, replay);
            }
            co.count("templates_rendered", 1);
            co.count("template_lines_compared", want.len() as u64);
        }
    }
    co.see("node_kinds", ast.iter().map(|n| std::mem::discriminant(n)).fold(0u64, |h, d| h.wrapping_mul(31).wrapping_add(fnv1a(format!("{d:?}").as_bytes()))));
    if idx < 4 {
        co.sample = Some(J::obj().with("template", tmpl).with("strings", J::Arr(strings.iter().take(4).map(|s| J::from(s.clone())).collect())));
    }
    co
}

pub fn run(cfg: &RunCfg) -> PropResult {
    console::set_colors_enabled(false);
    let report = if let Some(case) = &cfg.case {
        let mut it = case.split(':');
        let seed: u64 = it.next().and_then(|s| s.parse().ok()).unwrap_or(cfg.seed);
        let idx: u64 = it.next().and_then(|s| s.parse().ok()).unwrap_or(0);
        let mut r = crate::report::Report::default();
        r.add(idx, run_case(seed, idx));
        r
    } else {
        let n = if cfg.thorough { 5_000_000 } else { 100_000 };
        run_parallel(n, workers(), |i| run_case(cfg.seed, i))
    };
    PropResult {
        report,
        rule: "each evaluation: one template generated from the documented grammar (literals incl. escaped braces adjacent to placeholders, '{'+whitespace literals, keys msg/prefix/pos/len/unknown, alignment, widths 0..beyond u16::MAX, '!', styles, 1-4 lines) is rendered through a real bar and compared with the AST's own rendering; plus 4 single-character mutants and 6 random strings (brace/colon/digit-biased, arbitrary Unicode) parsed under catch_unwind with both with_template and template(); non-trivial = the template contains a placeholder; distinct = template text hash".into(),
        exhaustive: false,
    }
}
