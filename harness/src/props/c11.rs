//! C11: placeholder values reflect the bar state at draw time.
//! One template with every documented key on its own line; after a history of updates one draw
//! is compared, line by line, with the getters read at the same frozen virtual instant and passed
//! through the public formatters.

use super::{PropResult, RunCfg};
use crate::json::J;
use crate::prng::{fnv1a, Rng};
use crate::rend::{last_frame_lines, new_bar};
use crate::report::{run_parallel, workers, CaseOut, Verdict, Violation};
use crate::world::install_session;
use indicatif::style::ProgressTracker;
use indicatif::verif_hooks::Instant as HInstant;
use indicatif::{
    BinaryBytes, DecimalBytes, FormattedDuration, HumanBytes, HumanCount, HumanDuration, HumanFloatCount, ProgressState,
    ProgressStyle,
};
use std::fmt::Write;
use std::panic::{catch_unwind, AssertUnwindSafe};
use std::sync::atomic::{AtomicU64, Ordering};
use std::sync::{Arc, Mutex};

const KEYS: [&str; 29] = [
    "spinner", "prefix", "msg", "wide_msg", "pos", "human_pos", "len", "human_len", "percent", "percent_precise",
    "bytes", "total_bytes", "decimal_bytes", "decimal_total_bytes", "binary_bytes", "binary_total_bytes",
    "elapsed_precise", "elapsed", "per_sec", "bytes_per_sec", "decimal_bytes_per_sec", "binary_bytes_per_sec",
    "eta_precise", "eta", "duration_precise", "duration", "custom", "nosuchkey", "pos",
];

#[derive(Default, Debug, Clone)]
struct TrackLog {
    /// ticks since the last reset (what a stateful custom key would show)
    since_reset: u64,
    ticks: u64,
    resets: u64,
    last_tick_pos: Option<u64>,
    last_reset_pos: Option<u64>,
    last_write: Option<(u64, Option<u64>)>,
}

#[derive(Clone)]
struct Tracker(Arc<Mutex<TrackLog>>);

impl ProgressTracker for Tracker {
    fn clone_box(&self) -> Box<dyn ProgressTracker> {
        Box::new(self.clone())
    }
    fn tick(&mut self, state: &ProgressState, _now: HInstant) {
        let mut l = self.0.lock().unwrap();
        l.ticks += 1;
        l.since_reset += 1;
        l.last_tick_pos = Some(state.pos());
    }
    fn reset(&mut self, state: &ProgressState, _now: HInstant) {
        let mut l = self.0.lock().unwrap();
        l.resets += 1;
        l.since_reset = 0;
        l.last_reset_pos = Some(state.pos());
    }
    fn write(&self, state: &ProgressState, w: &mut dyn Write) {
        let mut l = self.0.lock().unwrap();
        l.last_write = Some((state.pos(), state.len()));
        let _ = write!(w, "C<{}|{:?}|t{}>", state.pos(), state.len(), l.since_reset);
    }
}

fn viol(rule: &str, feats: Vec<String>, detail: String, w: J, replay: String) -> Verdict {
    Verdict::Violated(Box::new(Violation { rule: rule.into(), features: feats, detail, witness: w, replay }))
}

/// acceptable renderings of the percentage (f32 arithmetic inside the crate)
fn percent_refs(pos: u64, len: Option<u64>, decimals: usize) -> Vec<String> {
    let exact: f64 = match len {
        None => 0.0,
        Some(0) => 100.0,
        Some(l) => (pos as f64 / l as f64).clamp(0.0, 1.0) * 100.0,
    };
    let mut v = vec![format!("{exact:.decimals$}")];
    for d in [-1e-4f64, 1e-4, -6e-6 * exact.max(1.0), 6e-6 * exact.max(1.0)] {
        let x = (exact + d).clamp(0.0, 100.0);
        v.push(format!("{x:.decimals$}"));
    }
    // and the f32 computation itself, independent of the crate: pos as f32 / len as f32
    if let Some(l) = len {
        if l > 0 {
            let f = if pos == 0 { 0.0f32 } else { (pos as f32 / l as f32).clamp(0.0, 1.0) };
            v.push(format!("{:.decimals$}", f * 100f32));
        }
    }
    v.sort();
    v.dedup();
    v
}

fn run_case(seed: u64, idx: u64) -> CaseOut {
    let mut rng = Rng::derive(seed, 11, idx);
    let replay = format!("{seed}:{idx}");
    let clock = Arc::new(AtomicU64::new(11_000_000_000));
    install_session(&clock);
    let track = Arc::new(Mutex::new(TrackLog::default()));
    let ticks_strs = ["t0", "t1", "t2", "t3", "FINAL"];
    let style = ProgressStyle::with_template(&KEYS.iter().map(|k| format!("{{{k}}}")).collect::<Vec<_>>().join("\n"))
        .unwrap()
        .tick_strings(&ticks_strs)
        .with_key("custom", Tracker(track.clone()));
    let len0 = match rng.below(5) {
        0 => None,
        1 => Some(0),
        2 => Some(rng.u64_biased()),
        _ => Some(rng.range(1, 100_000)),
    };
    let (pb, spy) = new_bar(120, 60000, len0);
    // a quarter of the bars start on a hidden target and are given the terminal somewhere along the
    // history: what happened while nobody was looking is part of the state that must be shown
    let starts_hidden = rng.chance(1, 4);
    let reveal_at = rng.range(0, 26);
    let pb = if starts_hidden { indicatif::ProgressBar::with_draw_target(len0, indicatif::ProgressDrawTarget::hidden()) } else { pb };
    let mut revealed = !starts_hidden;
    let mut co = CaseOut::held(0, true);
    let mut history: Vec<String> = Vec::new();
    let res = catch_unwind(AssertUnwindSafe(|| -> Result<(), Verdict> {
        pb.set_style(style);
        let (mut pos, mut len, mut msg, mut prefix) = (0u64, len0, String::new(), String::new());
        // texts as they were handed over, and the tab width in force: what is shown is the text with its tabs
        // expanded at that width
        let (mut msg_raw, mut prefix_raw, mut tw) = (String::new(), String::new(), 8usize);
        let expand = |s: &str, tw: usize| s.replace('\t', &" ".repeat(tw));
        let mut ticks = 0u64;
        let mut finished = false;
        let mut expected_resets = 0u64;
        let n = rng.range(1, 25);
        for opi in 0..n {
            if !revealed && opi == reveal_at {
                pb.set_draw_target(indicatif::ProgressDrawTarget::term_like(spy.boxed()));
                revealed = true;
                history.push("set_draw_target(terminal)".into());
            }
            // at least 1 ms between operations so that position updates are never throttled
            let adv = match rng.below(5) {
                0 => 1_000_000,
                1 => rng.range(1, 5_000) * 1_000_000,
                2 => rng.range(1, 3 * 86_400) * 1_000_000_000,
                _ => rng.range(1, 50) * 1_000_000,
            };
            clock.fetch_add(adv, Ordering::SeqCst);
            let before_ticks = track.lock().unwrap().ticks;
            spy.state().log = Some(Vec::new());
            let flushes_before = spy.flushes();
            let mut printed = 0usize;
            let op_result: Result<(), Verdict> = (|| { match rng.below(15) {
                14 => {
                    // a log line above the bar: the frame painted for it renders the bar (finished or not) below
                    pb.println("log line");
                    printed = 1;
                    history.push("println".into());
                }
                12 => {
                    tw = *rng.pick(&[1usize, 2, 4, 8]);
                    pb.set_tab_width(tw);
                    history.push(format!("set_tab_width({tw})"));
                }
                13 => {
                    msg_raw = format!("end\t{}", rng.range(0, 99));
                    match rng.below(3) {
                        0 => {
                            pb.finish_with_message(msg_raw.clone());
                            // (finishing moves the position to the end)
                            if let Some(l) = len {
                                pos = l;
                            }
                            history.push(format!("finish_with_message({msg_raw:?})"));
                        }
                        _ => {
                            pb.abandon_with_message(msg_raw.clone());
                            history.push(format!("abandon_with_message({msg_raw:?})"));
                        }
                    }
                    finished = true;
                }
                0 | 1 => {
                    let d = if rng.chance(1, 6) { rng.u64_biased() } else { rng.range(0, 5000) };
                    pos = pos.wrapping_add(d);
                    pb.inc(d);
                    ticks += 1;
                    history.push(format!("inc({d})"));
                }
                2 | 3 => {
                    pos = if rng.chance(1, 5) { rng.u64_biased() } else { rng.range(0, 120_000) };
                    pb.set_position(pos);
                    ticks += 1;
                    history.push(format!("set_position({pos})"));
                }
                4 => {
                    let l = if rng.chance(1, 4) { rng.u64_biased() } else { rng.range(0, 100_000) };
                    len = Some(l);
                    pb.set_length(l);
                    history.push(format!("set_length({l})"));
                }
                5 => {
                    len = None;
                    pb.unset_length();
                    history.push("unset_length".into());
                }
                6 => {
                    msg_raw = match rng.below(4) { 0 => format!("mes\tsage {}", rng.range(0, 999)), 1 => format!("  indented {}", rng.range(0, 999)), _ => format!("message {}", rng.range(0, 999)) };
                    pb.set_message(msg_raw.clone());
                    history.push(format!("set_message({msg_raw:?})"));
                }
                7 => {
                    prefix_raw = if rng.chance(1, 3) { format!("p\tfx{}", rng.range(0, 99)) } else { format!("pfx{}", rng.range(0, 99)) };
                    pb.set_prefix(prefix_raw.clone());
                    history.push(format!("set_prefix({prefix_raw:?})"));
                }
                8 | 9 => {
                    pb.tick();
                    ticks += 1;
                    history.push("tick".into());
                    let l = track.lock().unwrap().clone();
                    if l.ticks <= before_ticks || l.last_tick_pos != Some(pos) {
                        return Err(viol(
                            "custom-key-not-ticked",
                            vec!["custom".into()],
                            format!("tick(): tracker ticks {} -> {}, last state seen pos {:?}, bar pos {pos}", before_ticks, l.ticks, l.last_tick_pos),
                            J::from(history.clone()),
                            replay.clone(),
                        ));
                    }
                }
                10 => {
                    pb.reset();
                    pos = 0;
                    finished = false;
                    expected_resets += 1;
                    history.push("reset".into());
                    let l = track.lock().unwrap().clone();
                    if l.resets != expected_resets || l.last_reset_pos != Some(0) {
                        return Err(viol(
                            "custom-key-not-reset",
                            vec!["custom".into()],
                            format!("reset(): tracker resets = {} (expected {expected_resets}), state seen pos {:?}", l.resets, l.last_reset_pos),
                            J::from(history.clone()),
                            replay.clone(),
                        ));
                    }
                }
                _ => {
                    if rng.chance(1, 3) {
                        pb.abandon();
                        finished = true;
                        history.push("abandon".into());
                    }
                }
            } Ok(()) })();
            op_result?;
            msg = expand(&msg_raw, tw);
            prefix = expand(&prefix_raw, tw);
            // the frame painted by the operation itself: the custom key must already have been
            // ticked / reset together with the bar when that frame was rendered
            if spy.flushes() > flushes_before {
                let lines = last_frame_lines(&spy);
                let ci = KEYS.iter().position(|k| *k == "custom").unwrap();
                let want = format!("C<{pos}|{len:?}|t{}>", track.lock().unwrap().since_reset);
                // (how the log line of a println reaches the terminal - write_line or write_str - is the library's
                // business: in that frame the key's line is looked up by content, not by position)
                let shown = if printed > 0 { lines.iter().any(|l| l.trim_end() == want) } else { lines.get(ci).map(|l| l.trim_end()) == Some(want.as_str()) };
                if !shown {
                    return Err(viol(
                        "custom-key-out-of-step-with-bar",
                        vec!["custom".into(), "frame-painted-by-the-operation".into()],
                        format!("the frame painted by {:?} shows the custom key as {:?}, the tracker's state after the operation is {want:?}", history.last(), if printed > 0 { lines.iter().find(|l| l.starts_with("C<")) } else { lines.get(ci) }),
                        J::from(history.clone()),
                        replay.clone(),
                    ));
                }
            }
        }
        // ---- one draw, then read everything at the same frozen instant -------------------------------
        clock.fetch_add(rng.range(0, 30_000) * 1_000_000, Ordering::SeqCst);
        if !revealed {
            pb.set_draw_target(indicatif::ProgressDrawTarget::term_like(spy.boxed()));
            history.push("set_draw_target(terminal)".into());
        }
        spy.state().log = Some(Vec::new());
        pb.force_draw();
        let lines = last_frame_lines(&spy);
        let (gp, gl) = (pb.position(), pb.length());
        let (elapsed, eta, dur, ps) = (pb.elapsed(), pb.eta(), pb.duration(), pb.per_sec());
        let w = J::obj().with("initial_length", len0).with("history", J::from(history.clone()));
        if gp != pos || gl != len || pb.message() != msg || pb.prefix() != prefix {
            return Err(viol("getter-mismatch", vec!["getter".into()], format!("position {gp}/{pos}, length {gl:?}/{len:?}, message {:?}/{msg:?}", pb.message()), w, replay.clone()));
        }
        let lv = len.unwrap_or(pos);
        let spinner = if finished { "FINAL".to_string() } else { ticks_strs[(ticks % 4) as usize].to_string() };
        let expect: Vec<(&str, Vec<String>)> = vec![
            ("spinner", vec![spinner]),
            ("prefix", vec![prefix.clone()]),
            ("msg", vec![msg.clone()]),
            ("wide_msg", vec![msg.clone(), format!("{msg:<120}").trim_end().to_string()]),
            ("pos", vec![pos.to_string()]),
            ("human_pos", vec![HumanCount(pos).to_string()]),
            ("len", vec![lv.to_string()]),
            ("human_len", vec![HumanCount(lv).to_string()]),
            ("percent", percent_refs(pos, len, 0)),
            ("percent_precise", percent_refs(pos, len, 3)),
            ("bytes", vec![HumanBytes(pos).to_string()]),
            ("total_bytes", vec![HumanBytes(lv).to_string()]),
            ("decimal_bytes", vec![DecimalBytes(pos).to_string()]),
            ("decimal_total_bytes", vec![DecimalBytes(lv).to_string()]),
            ("binary_bytes", vec![BinaryBytes(pos).to_string()]),
            ("binary_total_bytes", vec![BinaryBytes(lv).to_string()]),
            ("elapsed_precise", vec![FormattedDuration(elapsed).to_string()]),
            ("elapsed", vec![format!("{:#}", HumanDuration(elapsed))]),
            ("per_sec", vec![format!("{}/s", HumanFloatCount(ps))]),
            ("bytes_per_sec", vec![format!("{}/s", HumanBytes(ps as u64))]),
            ("decimal_bytes_per_sec", vec![format!("{}/s", DecimalBytes(ps as u64))]),
            ("binary_bytes_per_sec", vec![format!("{}/s", BinaryBytes(ps as u64))]),
            ("eta_precise", vec![FormattedDuration(eta).to_string()]),
            ("eta", vec![format!("{:#}", HumanDuration(eta))]),
            ("duration_precise", vec![FormattedDuration(dur).to_string()]),
            ("duration", vec![format!("{:#}", HumanDuration(dur))]),
            ("custom", vec![format!("C<{pos}|{len:?}|t{}>", track.lock().unwrap().since_reset)]),
            ("nosuchkey", vec![String::new()]),
            ("pos", vec![pos.to_string()]),
        ];
        // the last template line may be missing if it is empty; pad
        let mut got = lines.clone();
        while got.len() < expect.len() {
            got.push(String::new());
        }
        for (i, (key, alts)) in expect.iter().enumerate() {
            let g = got[i].trim_end();
            if !alts.iter().any(|a| a.trim_end() == g) {
                return Err(viol(
                    "placeholder-value",
                    vec![format!("key-{key}"), if finished { "finished".into() } else { "in-progress".into() }, if len.is_none() { "unknown-length".into() } else { "known-length".into() }],
                    format!("{{{key}}} rendered {g:?}, the getters/formatters give {alts:?} (pos {pos}, len {len:?}, ticks {ticks}, elapsed {elapsed:?})"),
                    w,
                    replay.clone(),
                ));
            }
        }
        let lw = track.lock().unwrap().last_write;
        if lw != Some((pos, len)) {
            return Err(viol("custom-key-stale-state", vec!["custom".into()], format!("custom key was written with state {lw:?}, bar has ({pos}, {len:?})"), w, replay.clone()));
        }
        pb.abandon();
        Ok(())
    }));
    match res {
        Ok(Ok(())) => {}
        Ok(Err(v)) => co.verdict = v,
        Err(p) => {
            co.verdict = viol("panic", vec!["panic".into()], format!("panicked: {}", crate::world::panic_message(&p)), J::from(history.clone()), replay);
            std::mem::forget(pb);
            co.hash = fnv1a(format!("{idx}").as_bytes());
            indicatif::verif_hooks::install(None);
            return co;
        }
    }
    co.hash = fnv1a(format!("{len0:?}{history:?}").as_bytes());
    co.count("placeholder_lines_compared", KEYS.len() as u64);
    co.count("history_ops", history.len() as u64);
    if idx < 3 {
        co.sample = Some(J::obj().with("initial_length", len0).with("history", J::from(history)));
    }
    drop(pb);
    indicatif::verif_hooks::install(None);
    co
}

// ---- mid-draw lane -----------------------------------------------------------------------------------
// Position updates do not take the bar's lock, so one can land while another thread is in the middle
// of rendering a frame. A custom key placed between the built-in keys is the suspension point: when it
// is written it lets a helper thread run `inc`/`dec`/`set_position` and waits until the position getter
// shows the new value. The frame being rendered must still describe ONE position: every key of the
// pos/len family (with an unknown length, len renders as the position) shows the same value.

struct GateShared {
    armed: std::sync::atomic::AtomicBool,
    fired: AtomicU64,
    gave_up: AtomicU64,
    go: Mutex<Option<std::sync::mpsc::Sender<()>>>,
}

#[derive(Clone)]
struct Gate(Arc<GateShared>);

impl ProgressTracker for Gate {
    fn clone_box(&self) -> Box<dyn ProgressTracker> {
        Box::new(self.clone())
    }
    fn tick(&mut self, _: &ProgressState, _: HInstant) {}
    fn reset(&mut self, _: &ProgressState, _: HInstant) {}
    fn write(&self, state: &ProgressState, w: &mut dyn Write) {
        let _ = w.write_str("G");
        if !self.0.armed.swap(false, Ordering::SeqCst) {
            return;
        }
        // (the bar's own getters take the state lock, which this thread holds: read the state we are given)
        let before = state.pos();
        if let Some(tx) = self.0.go.lock().unwrap().take() {
            let _ = tx.send(());
        }
        self.0.fired.fetch_add(1, Ordering::SeqCst);
        // wait (real time, bounded) for the helper's lock-free position update to become visible
        let t0 = std::time::Instant::now();
        while state.pos() == before {
            if t0.elapsed().as_millis() > 2_000 {
                self.0.gave_up.fetch_add(1, Ordering::SeqCst);
                return;
            }
            std::thread::yield_now();
        }
    }
}

fn frame_of_flush(spy: &crate::spy::SpyTerm, k: usize) -> Vec<String> {
    use crate::spy::CallKind;
    let st = spy.state();
    let Some(log) = &st.log else { return Vec::new() };
    let mut flushes = 0usize;
    let mut lines = Vec::new();
    let mut prev_was_str = false;
    for c in log.iter() {
        if c.kind == CallKind::Flush {
            flushes += 1;
            if flushes > k {
                break;
            }
            prev_was_str = false;
            continue;
        }
        if flushes == k {
            if c.kind == CallKind::WriteStr {
                if !prev_was_str {
                    lines.push(c.text.clone().unwrap_or_default());
                }
                prev_was_str = true;
            } else {
                prev_was_str = false;
            }
        }
    }
    lines
}

fn flush_count(spy: &crate::spy::SpyTerm) -> usize {
    let st = spy.state();
    st.log.as_ref().map_or(0, |l| l.iter().filter(|c| c.kind == crate::spy::CallKind::Flush).count())
}

fn mid_draw_case(seed: u64, idx: u64) -> CaseOut {
    let mut rng = Rng::derive(seed, 1111, idx);
    let replay = format!("m{seed}:{idx}");
    // pos-family keys and, for a bar without length, the len family
    const POS_KEYS: [&str; 5] = ["pos", "human_pos", "bytes", "decimal_bytes", "binary_bytes"];
    const LEN_KEYS: [&str; 5] = ["len", "human_len", "total_bytes", "decimal_total_bytes", "binary_total_bytes"];
    let fmt = |key: &str, v: u64| -> String {
        match key {
            "pos" | "len" => v.to_string(),
            "human_pos" | "human_len" => HumanCount(v).to_string(),
            "bytes" | "total_bytes" => HumanBytes(v).to_string(),
            "decimal_bytes" | "decimal_total_bytes" => DecimalBytes(v).to_string(),
            _ => BinaryBytes(v).to_string(),
        }
    };
    let len0 = if rng.chance(2, 3) { None } else { Some(rng.range(1, 1_000_000)) };
    let nkeys = rng.range(2, 8) as usize;
    let mut keys: Vec<&str> = Vec::new();
    for _ in 0..nkeys {
        keys.push(if rng.chance(1, 2) { *rng.pick(&POS_KEYS) } else { *rng.pick(&LEN_KEYS) });
    }
    let gate_at = rng.range(1, nkeys as u64 - 1) as usize; // the gate sits before keys[gate_at]
    let mut parts: Vec<String> = Vec::new();
    for (i, k) in keys.iter().enumerate() {
        if i == gate_at {
            parts.push("{gate}".into());
        }
        parts.push(format!("{{{k}}}"));
    }
    let spec = parts.join("|");
    let shared = Arc::new(GateShared {
        armed: std::sync::atomic::AtomicBool::new(false),
        fired: AtomicU64::new(0),
        gave_up: AtomicU64::new(0),
        go: Mutex::new(None),
    });
    let style = ProgressStyle::with_template(&spec).unwrap().with_key("gate", Gate(shared.clone()));
    let (pb, spy) = new_bar(250, 100, len0);
    let p0 = match rng.below(4) {
        0 => 0,
        1 => rng.range(1, 1000),
        2 => rng.range(1000, 1 << 40),
        _ => rng.range(0, 99) * 1000 + 999,
    };
    let update = rng.below(3);
    let delta = match rng.below(3) {
        0 => 1,
        1 => rng.range(1, 5000),
        _ => rng.range(1, 1 << 30),
    };
    let p1 = match update {
        0 => p0 + delta,
        1 => p0.saturating_sub(delta.max(1)),
        _ => {
            let v = rng.range(0, 1 << 41);
            if v == p0 { v + 1 } else { v }
        }
    };
    let mut co = CaseOut::held(fnv1a(format!("{spec}:{len0:?}:{p0}:{p1}:{update}").as_bytes()), true);
    let witness = J::obj()
        .with("template", spec.clone())
        .with("length", len0.map(|v| v.to_string()).unwrap_or("none".into()))
        .with("position_before", p0.to_string())
        .with("position_after", p1.to_string())
        .with("update", ["inc", "dec", "set_position"][update as usize]);
    if p1 == p0 {
        co.nontrivial = false;
        return co;
    }
    let res = catch_unwind(AssertUnwindSafe(|| -> Verdict {
        pb.set_style(style);
        pb.set_position(p0);
        let (tx, rx) = std::sync::mpsc::channel::<()>();
        *shared.go.lock().unwrap() = Some(tx);
        let hb = pb.clone();
        let helper = std::thread::spawn(move || {
            if rx.recv().is_ok() {
                match update {
                    0 => hb.inc(p1 - p0),
                    1 => hb.dec(p0 - p1),
                    _ => hb.set_position(p1),
                }
            }
        });
        let before = flush_count(&spy);
        shared.armed.store(true, Ordering::SeqCst);
        pb.force_draw();
        // (if the gate never fired, dropping the sender releases the helper)
        shared.go.lock().unwrap().take();
        let _ = helper.join();
        let frame = frame_of_flush(&spy, before);
        pb.abandon();
        if shared.fired.load(Ordering::SeqCst) == 0 {
            return Verdict::Inconclusive("the gate key was not written during the draw".into());
        }
        if shared.gave_up.load(Ordering::SeqCst) > 0 {
            return Verdict::Inconclusive("the helper's position update did not become visible within 2 s".into());
        }
        let line = frame.first().cloned().unwrap_or_default();
        let fields: Vec<&str> = line.split('|').collect();
        if fields.len() != keys.len() + 1 {
            return viol("mid-draw-frame-shape", vec!["concurrent-update".into()], format!("frame {line:?} does not have the {} fields of {spec}", keys.len() + 1), witness.clone(), replay.clone());
        }
        // which single position does the frame describe?
        let mut candidates = vec![p0, p1];
        let mut fi = 0usize;
        let mut shown: Vec<String> = Vec::new();
        for (i, k) in keys.iter().enumerate() {
            if i == gate_at {
                fi += 1;
            }
            let got = fields[fi].trim();
            fi += 1;
            shown.push(format!("{k}={got}"));
            let is_len = LEN_KEYS.contains(k);
            if is_len && len0.is_some() {
                if got != fmt(k, len0.unwrap()) {
                    return viol("mid-draw-length", vec!["concurrent-update".into()], format!("{k} shows {got:?}, length is {:?}", len0), witness.clone(), replay.clone());
                }
                continue;
            }
            candidates.retain(|p| fmt(k, *p) == got);
        }
        if candidates.is_empty() {
            return viol(
                "frame-mixes-two-positions",
                vec!["concurrent-update".into(), if len0.is_none() { "no-length".into() } else { "with-length".into() }],
                format!("a position update ({p0} -> {p1}) landed while the frame was being rendered; the frame {line:?} agrees with neither position as a whole: {}", shown.join(", ")),
                witness.clone(),
                replay.clone(),
            );
        }
        Verdict::Held
    }));
    match res {
        Ok(v) => co.verdict = v,
        Err(p) => {
            std::mem::forget(pb);
            co.verdict = viol("panic", vec!["concurrent-update".into()], format!("panicked: {}", crate::world::panic_message(&p)), witness, replay);
        }
    }
    co.count("mid_draw_updates_injected", 1);
    co.see("mid_draw_update_kinds", update);
    co
}

// ---- tracker snapshot lane ----------------------------------------------------------------------------
// A stateful custom key may copy what it needs in tick() and print the copy in write(). Position changes
// can be silent (swallowed by the 1 ms / burst-10 bucket, or made while a steady ticker is installed);
// the next operation that repaints the bar must hand the trackers the current state before the frame is
// formatted, whichever operation it is.

#[derive(Clone)]
struct SnapTracker(Arc<Mutex<(u64, Option<u64>)>>);

impl ProgressTracker for SnapTracker {
    fn clone_box(&self) -> Box<dyn ProgressTracker> {
        Box::new(self.clone())
    }
    fn tick(&mut self, state: &ProgressState, _: HInstant) {
        *self.0.lock().unwrap() = (state.pos(), state.len());
    }
    fn reset(&mut self, state: &ProgressState, _: HInstant) {
        *self.0.lock().unwrap() = (state.pos(), state.len());
    }
    fn write(&self, _: &ProgressState, w: &mut dyn Write) {
        let s = self.0.lock().unwrap();
        let _ = write!(w, "S<{}|{:?}>", s.0, s.1);
    }
}

fn tracker_snapshot_case(seed: u64, idx: u64) -> CaseOut {
    let mut rng = Rng::derive(seed, 1112, idx);
    let replay = format!("t{seed}:{idx}");
    let clock = Arc::new(AtomicU64::new(11_000_000_000));
    install_session(&clock);
    // 0: swallowed by the bucket, 1: steady ticker installed (interval far away), 2: a running steady ticker paints
    // the next frames itself (round 11: a ticker path that redraws without telling the trackers)
    let silent_by = rng.below(3);
    // (finishing repaints without ticking the trackers - by design it is not a tick - so it is not part of this lane)
    let repaint = rng.below(6);
    let repaint_name = ["set_prefix", "set_message", "set_length", "unset_length", "inc_length", "tick", "finish_with_message"][repaint as usize];
    let (pb, spy) = new_bar(80, 100, Some(1000));
    let witness = J::obj().with("silent_change", ["burst of position updates at one instant", "position update under a steady ticker", "position update repainted by the steady ticker itself"][silent_by as usize]).with("repainting_call", repaint_name);
    let mut co = CaseOut::held(fnv1a(format!("{silent_by}{repaint}{idx}").as_bytes()), true);
    let res = catch_unwind(AssertUnwindSafe(|| -> Verdict {
        pb.set_style(ProgressStyle::with_template("{pos}/{len}|{snap}").unwrap().with_key("snap", SnapTracker(Arc::new(Mutex::new((0, None))))));
        pb.tick();
        clock.fetch_add(50_000_000, Ordering::SeqCst);
        if silent_by == 2 {
            // (handled below)
        } else if silent_by == 0 {
            // more updates than the bucket holds, all at the same instant: the last ones change the position silently
            for _ in 0..rng.range(12, 30) {
                pb.inc(1);
            }
        } else {
            pb.enable_steady_tick(std::time::Duration::from_secs(3600));
            // (the ticker's own first tick happens right away; wait for it so that it cannot land later)
            let t0 = std::time::Instant::now();
            while spy.flushes() < 2 && t0.elapsed().as_millis() < 2000 {
                std::thread::yield_now();
            }
            pb.inc(rng.range(1, 50));
            pb.set_position(rng.range(100, 900));
        }
        if silent_by == 2 {
            let wait_two = |spy: &crate::spy::SpyTerm| {
                let (f0, t0) = (spy.flushes(), std::time::Instant::now());
                while spy.flushes() < f0 + 2 {
                    if t0.elapsed().as_secs() >= 3 {
                        return false;
                    }
                    std::thread::sleep(std::time::Duration::from_micros(300));
                }
                true
            };
            spy.state().log = Some(Vec::new());
            pb.enable_steady_tick(std::time::Duration::from_millis(1));
            let mut ok = wait_two(&spy);
            pb.inc(rng.range(1, 50));
            pb.set_position(rng.range(100, 900));
            ok = ok && wait_two(&spy);
            // (joins the ticker thread: the last frame is complete and nothing paints behind our back)
            pb.disable_steady_tick();
            let lines = last_frame_lines(&spy);
            let (pos_after, len_after) = (pb.position(), pb.length());
            pb.abandon();
            if !ok {
                return Verdict::Inconclusive("the ticker thread did not paint twice within 3 s".into());
            }
            let want = format!("{pos_after}/{}|S<{pos_after}|{len_after:?}>", len_after.unwrap_or(pos_after));
            let got = lines.first().map(|l| l.trim_end().to_string()).unwrap_or_default();
            if got != want {
                return viol(
                    "custom-key-stale-state",
                    vec!["custom".into(), "silent-position-change".into(), "steady-ticker-frame".into()],
                    format!("the position reached {pos_after} under a running steady ticker; two ticker frames later the screen reads {got:?} - the stateful custom key should have been ticked with the current state ({want:?})"),
                    witness.clone(),
                    replay.clone(),
                );
            }
            return Verdict::Held;
        }
        let pos = pb.position();
        spy.state().log = Some(Vec::new());
        let before = spy.flushes();
        match repaint {
            0 => pb.set_prefix("p"),
            1 => pb.set_message("m"),
            2 => pb.set_length(2000),
            3 => pb.unset_length(),
            4 => pb.inc_length(5),
            5 => {
                if silent_by == 1 {
                    pb.set_message("m2")
                } else {
                    pb.tick()
                }
            }
            _ => pb.finish_with_message("f"),
        }
        let painted = spy.flushes() > before;
        let lines = last_frame_lines(&spy);
        let (pos_after, len_after) = (pb.position(), pb.length());
        if silent_by == 1 {
            pb.disable_steady_tick();
        }
        pb.abandon();
        if !painted {
            return Verdict::Inconclusive(format!("{repaint_name} did not repaint the bar"));
        }
        let want = format!("{pos_after}/{}|S<{pos_after}|{len_after:?}>", len_after.unwrap_or(pos_after));
        let got = lines.first().map(|l| l.trim_end().to_string()).unwrap_or_default();
        if got != want {
            return viol(
                "custom-key-stale-state",
                vec!["custom".into(), "silent-position-change".into(), repaint_name.into()],
                format!("the position reached {pos} without the trackers being told; the frame painted by {repaint_name} reads {got:?} - the stateful custom key should have been ticked with the current state first: {want:?}"),
                witness.clone(),
                replay.clone(),
            );
        }
        Verdict::Held
    }));
    match res {
        Ok(v) => co.verdict = v,
        Err(p) => {
            std::mem::forget(pb);
            co.verdict = viol("panic", vec!["custom".into()], format!("panicked: {}", crate::world::panic_message(&p)), witness, replay);
        }
    }
    indicatif::verif_hooks::install(None);
    co.count("tracker_snapshot_frames_checked", 1);
    co
}

pub fn run(cfg: &RunCfg) -> PropResult {
    console::set_colors_enabled(false);
    let report = if let Some(case) = &cfg.case {
        let mid = case.starts_with('m');
        let snap = case.starts_with('t');
        let mut it = case.trim_start_matches(['m', 't']).split(':');
        let seed: u64 = it.next().and_then(|s| s.parse().ok()).unwrap_or(cfg.seed);
        let idx: u64 = it.next().and_then(|s| s.parse().ok()).unwrap_or(0);
        let mut r = crate::report::Report::default();
        r.add(idx, if snap { tracker_snapshot_case(seed, idx) } else if mid { mid_draw_case(seed, idx) } else { run_case(seed, idx) });
        r
    } else {
        let n = if cfg.thorough { 4_000_000 } else { 80_000 };
        let mut r = run_parallel(n, workers(), |i| run_case(cfg.seed, i));
        let nm = if cfg.thorough { 200_000 } else { 4_000 };
        r.merge(crate::report::run_parallel_tagged('m', nm, workers(), |i| mid_draw_case(cfg.seed, i)));
        let nt = if cfg.thorough { 40_000 } else { 1_500 };
        r.merge(crate::report::run_parallel_tagged('t', nt, workers(), |i| tracker_snapshot_case(cfg.seed, i)));
        r
    };
    PropResult {
        report,
        rule: "each evaluation: a bar with every documented non-bar key (26) plus a custom key and an unknown key on separate template lines goes through 1-25 updates (inc/set_position incl. u64 extremes, set_length/unset_length, texts, ticks, reset, abandon; >= 1 ms of virtual time between operations, up to days) (a quarter of the bars start on a hidden target and receive the terminal through set_draw_target somewhere along the history) and is drawn once; each rendered line is compared with the corresponding getter read at the same frozen instant passed through the public formatter; custom tracker tick/reset/write calls are logged and compared with the bar; distinct = (initial length, history) hash; mid-draw lane: a custom key between 2-8 pos/len-family keys lets a helper thread run inc/dec/set_position while the frame is being rendered (the update is lock-free) and the frame must still describe one single position; tracker snapshot lane: after a silent position change (updates swallowed by the burst bucket, or made under a steady ticker) the frame painted by set_prefix/set_message/set_length/unset_length/inc_length/tick must show a stateful custom key ticked with the current state".into(),
        exhaustive: false,
    }
}
