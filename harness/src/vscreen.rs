//! VScreen: a small xterm-style terminal model written for this harness.
//!
//! * `cols × rows` visible grid on top of an unbounded scrollback,
//! * deferred wrap (pending-wrap flag at the right margin), per-row "soft wrapped" flag,
//! * `\r`, `\n`, `CSI n A/B/C/D`, `CSI n K`, SGR ignored, 0/1/2-column characters,
//! * the cursor cannot move above the top visible row (what scrolled off is out of reach).
//!
//! It is the oracle's eye; it is cross-checked against the independent `vt100` crate by the
//! spy terminal (see spy.rs). It deliberately knows nothing about indicatif.

use unicode_width::UnicodeWidthChar;

#[derive(Clone, Copy, Debug, PartialEq, Eq)]
pub enum Cell {
    Empty,
    Ch(char),
    /// right half of a double-width character
    Cont,
}

#[derive(Clone, Debug)]
pub struct Row {
    pub cells: Vec<Cell>,
    /// the line continues on the next row (a character was written after the margin was hit)
    pub wrapped: bool,
}

impl Row {
    fn new(cols: usize) -> Self {
        Self {
            cells: vec![Cell::Empty; cols],
            wrapped: false,
        }
    }

    /// Text of the row; unwritten cells inside the text become spaces, trailing ones are dropped.
    pub fn text(&self) -> String {
        let mut s = String::new();
        let last = self.cells.iter().rposition(|c| *c != Cell::Empty);
        if let Some(last) = last {
            for c in &self.cells[..=last] {
                match c {
                    Cell::Empty => s.push(' '),
                    Cell::Ch(ch) => s.push(*ch),
                    Cell::Cont => {}
                }
            }
        }
        s
    }

    pub fn is_blank(&self) -> bool {
        self.cells
            .iter()
            .all(|c| matches!(c, Cell::Empty | Cell::Ch(' ')))
    }
}

#[derive(Clone, Copy, Debug, PartialEq, Eq)]
enum PState {
    Ground,
    Esc,
    Csi,
}

#[derive(Clone, Debug)]
pub struct VScreen {
    pub cols: usize,
    pub rows: usize,
    /// scrollback + visible rows
    pub lines: Vec<Row>,
    /// index in `lines` of the first visible row
    pub top: usize,
    pub cur_r: usize,
    pub cur_c: usize,
    pub pending: bool,
    pstate: PState,
    params: String,
    /// number of TAB bytes that reached the terminal
    pub tabs_seen: u64,
    /// number of rows that ever soft-wrapped
    pub wraps: u64,
    /// how often a cursor-up was clamped at the top of the visible area
    pub clamped_up: u64,
    /// how often a double-width character had to wrap early because only one column was left
    pub straddles: u64,
}

/// One logical line: a row plus its soft-wrapped continuation rows.
#[derive(Clone, Debug, PartialEq, Eq)]
pub struct LLine {
    pub text: String,
    pub first_row: usize,
    pub nrows: usize,
}

impl VScreen {
    pub fn new(cols: u16, rows: u16) -> Self {
        let cols = cols.max(1) as usize;
        let rows = rows.max(1) as usize;
        Self {
            cols,
            rows,
            lines: vec![Row::new(cols)],
            top: 0,
            cur_r: 0,
            cur_c: 0,
            pending: false,
            pstate: PState::Ground,
            params: String::new(),
            tabs_seen: 0,
            wraps: 0,
            clamped_up: 0,
            straddles: 0,
        }
    }

    fn ensure_row(&mut self, r: usize) {
        while self.lines.len() <= r {
            self.lines.push(Row::new(self.cols));
        }
    }

    fn bottom(&self) -> usize {
        self.top + self.rows - 1
    }

    fn line_feed(&mut self) {
        if self.cur_r == self.bottom() {
            // scroll: the top visible row moves into the scrollback
            self.top += 1;
        }
        self.cur_r += 1;
        self.ensure_row(self.cur_r);
    }

    fn put(&mut self, ch: char) {
        let w = ch.width().unwrap_or(0);
        if w == 0 {
            return; // combining marks and other zero-width characters occupy no cell
        }
        let w = w.min(self.cols);
        if !self.pending && w == 2 && self.cur_c + 2 > self.cols {
            self.straddles += 1;
        }
        if self.pending || (w == 2 && self.cur_c + 2 > self.cols) {
            let r = self.cur_r;
            self.lines[r].wrapped = true;
            self.wraps += 1;
            self.line_feed();
            self.cur_c = 0;
            self.pending = false;
        }
        let (r, c) = (self.cur_r, self.cur_c);
        // overwriting half of a wide character blanks the other half
        if self.lines[r].cells[c] == Cell::Cont && c > 0 {
            self.lines[r].cells[c - 1] = Cell::Empty;
        }
        if w == 2 && c + 1 < self.cols {
            if c + 2 < self.cols && self.lines[r].cells[c + 2] == Cell::Cont {
                self.lines[r].cells[c + 2] = Cell::Empty;
            }
            self.lines[r].cells[c] = Cell::Ch(ch);
            self.lines[r].cells[c + 1] = Cell::Cont;
        } else {
            if c + 1 < self.cols && self.lines[r].cells[c + 1] == Cell::Cont {
                self.lines[r].cells[c + 1] = Cell::Empty;
            }
            self.lines[r].cells[c] = Cell::Ch(ch);
        }
        self.cur_c += w;
        if self.cur_c >= self.cols {
            self.cur_c = self.cols - 1;
            self.pending = true;
        }
    }

    fn csi(&mut self, fin: char) {
        let n: usize = self
            .params
            .split(';')
            .next()
            .and_then(|p| p.parse().ok())
            .unwrap_or(0);
        let n1 = n.max(1);
        match fin {
            'A' => {
                let target = self.cur_r.saturating_sub(n1);
                if target < self.top || self.cur_r < n1 {
                    self.clamped_up += 1;
                }
                self.cur_r = target.max(self.top);
                self.pending = false;
            }
            'B' => {
                self.cur_r = (self.cur_r + n1).min(self.bottom());
                self.ensure_row(self.cur_r);
                self.pending = false;
            }
            'C' => {
                self.cur_c = (self.cur_c + n1).min(self.cols - 1);
                self.pending = false;
            }
            'D' => {
                self.cur_c = self.cur_c.saturating_sub(n1);
                self.pending = false;
            }
            'K' => {
                let r = self.cur_r;
                let c = self.cur_c;
                match n {
                    0 => {
                        for x in c..self.cols {
                            self.lines[r].cells[x] = Cell::Empty;
                        }
                        self.lines[r].wrapped = false;
                    }
                    1 => {
                        for x in 0..=c.min(self.cols - 1) {
                            self.lines[r].cells[x] = Cell::Empty;
                        }
                    }
                    _ => {
                        for x in 0..self.cols {
                            self.lines[r].cells[x] = Cell::Empty;
                        }
                        self.lines[r].wrapped = false;
                    }
                }
            }
            _ => {} // SGR ('m') and everything else: no effect on the grid
        }
    }

    pub fn feed(&mut self, s: &str) {
        for ch in s.chars() {
            match self.pstate {
                PState::Ground => match ch {
                    '\x1b' => self.pstate = PState::Esc,
                    '\r' => {
                        self.cur_c = 0;
                        self.pending = false;
                    }
                    '\n' => {
                        self.pending = false;
                        self.line_feed();
                    }
                    '\t' => {
                        self.tabs_seen += 1;
                        let next = ((self.cur_c / 8) + 1) * 8;
                        self.cur_c = next.min(self.cols - 1);
                    }
                    '\x08' => {
                        self.cur_c = self.cur_c.saturating_sub(1);
                        self.pending = false;
                    }
                    c if (c as u32) < 0x20 || c == '\x7f' => {}
                    c => self.put(c),
                },
                PState::Esc => {
                    if ch == '[' {
                        self.params.clear();
                        self.pstate = PState::Csi;
                    } else {
                        self.pstate = PState::Ground;
                    }
                }
                PState::Csi => {
                    if ('\x40'..='\x7e').contains(&ch) {
                        self.csi(ch);
                        self.pstate = PState::Ground;
                    } else {
                        self.params.push(ch);
                    }
                }
            }
        }
    }

    /// Where would the next printable character land? (absolute row, column)
    pub fn next_char_pos(&self) -> (usize, usize) {
        if self.pending {
            (self.cur_r + 1, 0)
        } else {
            (self.cur_r, self.cur_c)
        }
    }

    /// Scrollback + screen as logical lines. Trailing blank lines are kept up to the cursor row
    /// and dropped below it.
    pub fn logical_lines(&self) -> Vec<LLine> {
        let mut out: Vec<LLine> = Vec::new();
        let mut i = 0;
        while i < self.lines.len() {
            let first = i;
            let mut text = String::new();
            loop {
                let row = &self.lines[i];
                if row.wrapped {
                    // a soft-wrapped row is full (a blank cell at the margin in front of a wide
                    // character shows as a space)
                    for c in &row.cells {
                        match c {
                            Cell::Empty => text.push(' '),
                            Cell::Ch(ch) => text.push(*ch),
                            Cell::Cont => {}
                        }
                    }
                    i += 1;
                    if i >= self.lines.len() {
                        break;
                    }
                } else {
                    text.push_str(&row.text());
                    i += 1;
                    break;
                }
            }
            out.push(LLine {
                text,
                first_row: first,
                nrows: i - first,
            });
        }
        while let Some(last) = out.last() {
            if last.text.trim_end().is_empty() {
                out.pop();
            } else {
                break;
            }
        }
        out
    }

    /// Text of the visible rows (trailing spaces trimmed) — used for the vt100 cross-check.
    pub fn visible_rows(&self) -> Vec<String> {
        (self.top..self.top + self.rows)
            .map(|r| match self.lines.get(r) {
                Some(row) => row.text().trim_end().to_string(),
                None => String::new(),
            })
            .collect()
    }

    pub fn visible_wrapped(&self) -> Vec<bool> {
        (self.top..self.top + self.rows)
            .map(|r| self.lines.get(r).map(|row| row.wrapped).unwrap_or(false))
            .collect()
    }

    /// Text of every row (scrollback + screen), trailing blank rows dropped.
    pub fn all_rows(&self) -> Vec<String> {
        let mut v: Vec<String> = self.lines.iter().map(|r| r.text().trim_end().to_string()).collect();
        while v.last().map(|r| r.is_empty()).unwrap_or(false) {
            v.pop();
        }
        v
    }

    pub fn total_rows(&self) -> usize {
        self.lines.len()
    }
}

/// How a terminal of width `w` lays out `text` written at column 0: one string per row.
/// Zero-width characters occupy nothing; a double-width character that does not fit at the
/// margin moves to the next row. An empty text still occupies one (blank) row.
thread_local! {
    /// set when a double-width character did not fit into the last column of a row (it "straddles" the
    /// right margin and wraps one column early) in any line laid out on this thread since the last reset
    static STRADDLE: std::cell::Cell<bool> = const { std::cell::Cell::new(false) };
}

pub fn reset_straddle() {
    STRADDLE.with(|s| s.set(false));
}

pub fn straddle_seen() -> bool {
    STRADDLE.with(|s| s.get())
}

pub fn phys_rows(text: &str, w: usize) -> Vec<String> {
    let w = w.max(1);
    let mut rows = vec![String::new()];
    let mut col = 0usize;
    for ch in strip_ansi(text).chars() {
        let cw = ch.width().unwrap_or(0).min(w);
        if cw == 0 {
            continue;
        }
        if cw == 2 && col + 1 == w {
            STRADDLE.with(|s| s.set(true));
        }
        if col + cw > w {
            rows.push(String::new());
            col = 0;
        }
        rows.last_mut().unwrap().push(ch);
        col += cw;
    }
    rows.iter().map(|r| r.trim_end().to_string()).collect()
}

/// Strip ANSI escape sequences (CSI … final byte, and two-byte ESC sequences).
pub fn strip_ansi(s: &str) -> String {
    let mut out = String::new();
    let mut it = s.chars().peekable();
    while let Some(c) = it.next() {
        if c == '\x1b' {
            match it.peek() {
                Some('[') => {
                    it.next();
                    for d in it.by_ref() {
                        if ('\x40'..='\x7e').contains(&d) {
                            break;
                        }
                    }
                }
                Some(_) => {
                    it.next();
                }
                None => {}
            }
        } else {
            out.push(c);
        }
    }
    out
}

/// Display width in columns after stripping ANSI sequences.
pub fn cols_of(s: &str) -> usize {
    strip_ansi(s)
        .chars()
        .map(|c| c.width().unwrap_or(0))
        .sum()
}

#[cfg(test)]
mod tests {
    use super::*;

    #[test]
    fn deferred_wrap() {
        let mut v = VScreen::new(5, 4);
        v.feed("ABCDE");
        assert_eq!((v.cur_r, v.cur_c, v.pending), (0, 4, true));
        v.feed("F");
        assert_eq!(v.lines[0].wrapped, true);
        assert_eq!(v.logical_lines()[0].text, "ABCDEF");
        v.feed("\r\n");
        assert_eq!((v.cur_r, v.cur_c), (2, 0));
    }

    #[test]
    fn scroll_and_clamp() {
        let mut v = VScreen::new(3, 2);
        v.feed("a\r\nb\r\nc");
        assert_eq!(v.top, 1);
        v.feed("\x1b[5A");
        assert_eq!(v.cur_r, 1);
        assert_eq!(v.clamped_up, 1);
        assert_eq!(v.visible_rows(), vec!["b", "c"]);
    }
}
