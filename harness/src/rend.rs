//! Render one bar on a spy terminal and return the raw frame lines exactly as they were handed to
//! the terminal (before any wrapping), or the panic message.

use crate::spy::{CallKind, SpyTerm};
use indicatif::{ProgressBar, ProgressDrawTarget, ProgressStyle};
use std::panic::{catch_unwind, AssertUnwindSafe};

pub struct Rendered {
    /// raw strings of the frame lines of the last draw
    pub lines: Vec<String>,
    pub tabs_seen: u64,
}

/// Frame lines of the last flushed draw in a call log: a `write_str` is a line if the previous
/// call was not a `write_str` (the right-edge filler and the blank that takes up an empty first
/// line directly follow the line they belong to).
pub fn last_frame_lines(spy: &SpyTerm) -> Vec<String> {
    let st = spy.state();
    let Some(log) = &st.log else { return Vec::new() };
    // find the range of the last draw: from after the previous Flush to the last Flush
    let last_flush = match log.iter().rposition(|c| c.kind == CallKind::Flush) {
        Some(p) => p,
        None => return Vec::new(),
    };
    let start = log[..last_flush].iter().rposition(|c| c.kind == CallKind::Flush).map_or(0, |p| p + 1);
    let mut lines = Vec::new();
    let mut prev_was_str = false;
    for c in &log[start..last_flush] {
        match c.kind {
            CallKind::WriteStr => {
                if !prev_was_str {
                    lines.push(c.text.clone().unwrap_or_default());
                }
                prev_was_str = true;
            }
            _ => prev_was_str = false,
        }
    }
    lines
}

pub fn new_bar(width: u16, height: u16, len: Option<u64>) -> (ProgressBar, SpyTerm) {
    let spy = SpyTerm::new(width, height, false);
    spy.enable_log();
    spy.state().snap_on_flush = false;
    let pb = ProgressBar::with_draw_target(len, ProgressDrawTarget::term_like(spy.boxed()));
    (pb, spy)
}

/// Build a bar, let `setup` configure it, force one draw; everything under catch_unwind.
pub fn render_with(
    width: u16,
    len: Option<u64>,
    style: ProgressStyle,
    setup: impl FnOnce(&ProgressBar),
) -> Result<Rendered, String> {
    // The bar lives outside the catch_unwind: if a draw panics, dropping the bar would draw (and
    // panic) again while unwinding, which aborts the process. A bar that panicked is leaked.
    let (pb, spy) = new_bar(width, 60000, len);
    let res = catch_unwind(AssertUnwindSafe(|| {
        pb.set_style(style);
        setup(&pb);
        pb.force_draw();
        let lines = last_frame_lines(&spy);
        let tabs = spy.state().screen.tabs_seen;
        // abandon so that dropping does not draw again
        pb.abandon();
        Rendered { lines, tabs_seen: tabs }
    }));
    match res {
        Ok(r) => Ok(r),
        Err(p) => {
            std::mem::forget(pb);
            Err(crate::world::panic_message(&p))
        }
    }
}
