pub mod c02conc;
pub mod racelanes;
pub mod c05;
pub mod c06;
pub mod c07;
pub mod c08;
pub mod c09;
pub mod c10;
pub mod c11;
pub mod c12;
pub mod c13;
pub mod c14;
pub mod c15;
pub mod c16;
pub mod c18;
pub mod screen_props;

use crate::report::Report;

pub struct RunCfg {
    pub thorough: bool,
    pub seed: u64,
    /// re-run exactly one case ("seed:index" or property-specific)
    pub case: Option<String>,
}

pub struct PropResult {
    pub report: Report,
    pub rule: String,
    pub exhaustive: bool,
}

pub fn run(id: &str, cfg: &RunCfg) -> Option<PropResult> {
    match id {
        "C01" | "C02" | "C03" | "C04" | "C19" => Some(screen_props::run(id, cfg)),
        "C05" => Some(c05::run(cfg)),
        "C06" => Some(c06::run(cfg)),
        "C07" => Some(c07::run(cfg)),
        "C08" => Some(c08::run(cfg)),
        "C09" => Some(c09::run(cfg)),
        "C10" => Some(c10::run(cfg)),
        "C11" => Some(c11::run(cfg)),
        "C12" => Some(c12::run(cfg)),
        "C13" => Some(c13::run(cfg)),
        "C14" => Some(c14::run(cfg)),
        "C15" => Some(c15::run(cfg)),
        "C16" => Some(c16::run(cfg)),
        "C18" => Some(c18::run(cfg)),
        _ => None,
    }
}
