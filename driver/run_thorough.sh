#!/bin/bash
# Runs every property's thorough tier (sequentially; each uses all cores), keeps the evidence under
# thorough_evidence/<ID>.json, then restores evidence/<ID>.json with a quick run.
cd /verif || exit 2
mkdir -p thorough_evidence
for n in ${@:-01 02 03 04 05 06 07 08 09 10 11 12 13 14 15 16 17 18 19}; do
  id=C$n
  out=$(VERIF_SEED=${VERIF_SEED:-1} ./check $id --tier thorough 2>&1); rc=$?
  echo "$out" | grep -E "^(OK|VIOLATION|INCONCLUSIVE|  signature)" | cut -c1-250
  [ $rc -eq 0 ] && cp evidence/$id.json thorough_evidence/$id.json
  ./check $id >/dev/null 2>&1
done
