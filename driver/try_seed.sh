#!/bin/bash
# usage: try_seed.sh <patch.diff> <PROP> [<PROP>...]   -- applies a seeded change to /repo, runs the quick checks, undoes it
set -u
patch=$(realpath "$1"); shift
cd /repo || exit 2
if ! git diff --quiet; then echo "/repo has local changes; refusing"; exit 2; fi
git apply "$patch" || { echo "patch does not apply"; exit 2; }
trap 'git -C /repo checkout -- . ; git -C /repo clean -fdq src' EXIT
cd /verif
for p in "$@"; do
  out=$(VERIF_SEED=${VERIF_SEED:-1} ./check "$p" 2>&1)
  rc=$?
  echo "== $p rc=$rc"
  echo "$out" | grep -E "^(VIOLATION|  signature|OK|INCONCLUSIVE)" | cut -c1-300 | head -8
done
