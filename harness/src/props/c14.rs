//! C14: every style the builder accepts can be rendered without panicking.

use super::{PropResult, RunCfg};
use crate::json::J;
use crate::prng::{fnv1a, Rng};
use crate::rend::{last_frame_lines, new_bar};
use crate::report::{run_parallel, workers, CaseOut, Verdict, Violation};
use indicatif::{ProgressState, ProgressStyle};
use std::fmt::Write;
use std::panic::{catch_unwind, AssertUnwindSafe};

#[derive(Clone, Debug)]
enum Build {
    TickChars(String),
    TickStrings(Vec<String>),
    ProgressChars(String),
    WithKey,
    Template(String),
}

const ZW: char = '\u{200b}'; // zero width space

fn gen_build(rng: &mut Rng) -> Build {
    let pool: Vec<char> = vec!['a', 'b', '-', '#', '>', ' ', '█', '░', '世', '界', ZW, '\u{301}', '⠁', '⠂'];
    match rng.below(5) {
        0 => {
            let n = *rng.pick(&[0usize, 1, 2, 3, 5, 30]);
            Build::TickChars((0..n).map(|_| *rng.pick(&pool)).collect())
        }
        1 => {
            let n = *rng.pick(&[0usize, 1, 1, 2, 3, 8]);
            Build::TickStrings(
                (0..n)
                    .map(|_| match rng.below(4) {
                        0 => String::new(),
                        1 => "ab".to_string(),
                        2 => "世".to_string(),
                        _ => rng.pick(&pool).to_string(),
                    })
                    .collect(),
            )
        }
        2 => {
            let n = rng.range(0, 10) as usize;
            let class = rng.below(4);
            Build::ProgressChars(
                (0..n)
                    .map(|_| match class {
                        0 => *rng.pick(&['#', '>', '-', '=', ' ', '█', '░']), // all 1 column
                        1 => *rng.pick(&['世', '界', '日']),                  // all 2 columns
                        2 => *rng.pick(&[ZW, '\u{301}']),                      // all 0 columns
                        _ => *rng.pick(&pool),                                  // mixed
                    })
                    .collect(),
            )
        }
        3 => Build::WithKey,
        _ => Build::Template(
            rng.pick(&[
                "{spinner} {msg}",
                "{bar:10} {pos}/{len}",
                "{wide_bar}",
                "{spinner}{bar:5.red/blue}{wide_msg}",
                "{prefix:>5!} {percent}% {eta} {per_sec} {bytes}",
                "{bar:0}|{bar:1}|{bar:2}",
                "{custom} {spinner:.green}",
                "",
            ])
            .to_string(),
        ),
    }
}

fn arg_class(b: &Build) -> String {
    match b {
        Build::TickChars(s) => format!("tick_chars:{}", s.chars().count().min(3)),
        Build::TickStrings(v) => format!("tick_strings:{}", v.len().min(3)),
        Build::ProgressChars(s) => {
            use unicode_width::UnicodeWidthChar;
            let widths: Vec<usize> = s.chars().map(|c| c.width().unwrap_or(0)).collect();
            let kind = if widths.is_empty() {
                "none"
            } else if widths.iter().all(|w| *w == 0) {
                "zero-width"
            } else if widths.iter().all(|w| *w == widths[0]) {
                "equal-width"
            } else {
                "mixed-width"
            };
            format!("progress_chars:{}:{kind}", widths.len().min(3))
        }
        Build::WithKey => "with_key".into(),
        Build::Template(_) => "template".into(),
    }
}

fn apply(style: ProgressStyle, b: &Build) -> Result<ProgressStyle, String> {
    let b = b.clone();
    catch_unwind(AssertUnwindSafe(move || match b {
        Build::TickChars(s) => style.tick_chars(&s),
        Build::TickStrings(v) => {
            let refs: Vec<&str> = v.iter().map(|s| s.as_str()).collect();
            style.tick_strings(&refs)
        }
        Build::ProgressChars(s) => style.progress_chars(&s),
        Build::WithKey => style.with_key("custom", |st: &ProgressState, w: &mut dyn Write| {
            let _ = write!(w, "<{}>", st.pos());
        }),
        Build::Template(t) => style.template(&t).unwrap(),
    }))
    .map_err(|p| crate::world::panic_message(&p))
}

fn run_case(seed: u64, idx: u64) -> CaseOut {
    let mut rng = Rng::derive(seed, 14, idx);
    let replay = format!("{seed}:{idx}");
    let base = rng.pick(&["{spinner} {msg} {bar:12} {pos}/{len}", "{spinner}{wide_bar}", "{bar:7}{spinner}{wide_msg}", "{msg}\n{bar:7} {pos}/{len}{spinner}", "{\tx {pos}{spinner}", "a\tb{ c {pos} {bar:5}"]).to_string();
    let n_builds = rng.range(1, 3);
    let builds: Vec<Build> = (0..n_builds).map(|_| gen_build(&mut rng)).collect();
    let mut co = CaseOut::held(fnv1a(format!("{base}{builds:?}").as_bytes()), true);
    let witness = J::obj().with("base_template", base.clone()).with("builder_calls", J::Arr(builds.iter().map(|b| J::from(format!("{b:?}"))).collect()));
    let mut style = ProgressStyle::with_template(&base).unwrap();
    let mut last_class = String::from("none");
    for b in &builds {
        last_class = arg_class(b);
        match apply(style, b) {
            Ok(s) => {
                // "fewer than two tick strings or progress characters, progress characters of unequal width - are
                // rejected with an explicit panic when the style is built"
                let must_reject = match b {
                    Build::TickChars(t) => t.chars().count() < 2,
                    Build::TickStrings(v) => v.len() < 2,
                    Build::ProgressChars(_) => last_class.ends_with(":mixed-width") || last_class.starts_with("progress_chars:0") || last_class.starts_with("progress_chars:1"),
                    _ => false,
                };
                if must_reject {
                    co.verdict = Verdict::Violated(Box::new(Violation {
                        rule: "unrenderable-style-accepted".into(),
                        features: vec![last_class.clone()],
                        detail: format!("the builder accepted {b:?} ({last_class}), a configuration the statement says is rejected when the style is built"),
                        witness,
                        replay,
                    }));
                    return co;
                }
                style = s
            }
            Err(_msg) => {
                co.count("rejected_at_build_time", 1);
                co.see("rejected_classes", fnv1a(last_class.as_bytes()));
                return co; // explicit rejection when the style is built: fine
            }
        }
    }
    co.count("styles_accepted", 1);
    co.see("accepted_classes", fnv1a(builds.iter().map(arg_class).collect::<Vec<_>>().join("+").as_bytes()));
    let classes: Vec<String> = builds.iter().map(arg_class).collect();
    // ---- tick strings for every tick value ------------------------------------------------------
    for t in [0u64, 1, 2, 3, 29, 30, 31, u32::MAX as u64, u32::MAX as u64 + 1, u64::MAX - 1, u64::MAX, rng.next_u64()] {
        let st = style.clone();
        if let Err(p) = catch_unwind(AssertUnwindSafe(move || {
            let _ = st.get_tick_str(t).len();
            let _ = st.get_final_tick_str().len();
        })) {
            co.verdict = Verdict::Violated(Box::new(Violation {
                rule: "render-panic".into(),
                features: classes.clone(),
                detail: format!("accepted style panics in get_tick_str({t}): {}", crate::world::panic_message(&p)),
                witness,
                replay,
            }));
            return co;
        }
    }
    // ---- draws ------------------------------------------------------------------------------------
    let mut draws = 0u64;
    for width in [0u16, 1, 2, 10, 80] {
        for (len, pos) in [(Some(10u64), 0u64), (Some(10), 5), (Some(10), 10), (Some(10), 15), (None, 3), (Some(0), 0)] {
            let (pb, spy) = new_bar(width, 60000, len);
            let st = style.clone();
            let r = catch_unwind(AssertUnwindSafe(|| {
                pb.set_style(st);
                pb.set_position(pos);
                // (an empty message makes the first line of the last base template empty)
                pb.set_message(if pos == 5 { "" } else { "msg" });
                for _ in 0..3 {
                    pb.tick();
                }
                pb.force_draw();
                let n = last_frame_lines(&spy).len();
                pb.finish();
                n
            }));
            match r {
                Ok(_) => {
                    draws += 1;
                }
                Err(p) => {
                    std::mem::forget(pb);
                    co.verdict = Verdict::Violated(Box::new(Violation {
                        rule: "render-panic".into(),
                        features: classes.clone(),
                        detail: format!(
                            "style was accepted by the builder but drawing it (width {width}, len {len:?}, pos {pos}) panicked: {}",
                            crate::world::panic_message(&p)
                        ),
                        witness,
                        replay,
                    }));
                    return co;
                }
            }
        }
    }
    co.count("draws_without_panic", draws);
    if idx < 3 {
        co.sample = Some(witness);
    }
    co
}

/// State sweep: one style holding every documented key (with and without field widths) is drawn for bar
/// states reached through extreme histories on a virtual clock: lengths 0 / 1 / 2^63 / u64::MAX / none,
/// positions below, at and beyond the length, steps that are hours or nanoseconds apart (rates from
/// ~1e-13 to 1e18 per second, ETAs that saturate), elapsed times from nothing to decades, in progress /
/// finished / abandoned / reset. Every update, draw and time-related getter runs under catch_unwind.
fn state_sweep_case(seed: u64, idx: u64) -> CaseOut {
    use std::sync::atomic::{AtomicU64, Ordering};
    let mut rng = Rng::derive(seed, 1414, idx);
    let replay = format!("s{seed}:{idx}");
    const KEYS: [&str; 28] = [
        "spinner", "prefix", "msg", "wide_msg", "pos", "human_pos", "len", "human_len", "percent", "percent_precise", "bytes", "total_bytes",
        "decimal_bytes", "decimal_total_bytes", "binary_bytes", "binary_total_bytes", "elapsed_precise", "elapsed", "per_sec", "bytes_per_sec",
        "decimal_bytes_per_sec", "binary_bytes_per_sec", "eta_precise", "eta", "duration_precise", "duration", "bar", "wide_bar",
    ];
    let tmpl: String = KEYS
        .iter()
        .map(|k| if *k == "wide_bar" || *k == "wide_msg" { format!("{{{k}}}") } else if rng.chance(1, 2) { format!("{{{k}:{}{}{}}}", rng.pick(&["<", "^", ">"]), rng.range(0, 30), if rng.chance(1, 2) { "!" } else { "" }) } else { format!("{{{k}}}") })
        .collect::<Vec<_>>()
        .join("\n");
    // texts of every UTF-8 shape for the message and the prefix (they meet padded and truncating fields)
    const TEXTS: [&str; 9] = [
        "",
        "msg",
        "a fairly long plain message that will not fit into any of the narrow fields of this template",
        "\u{65e5}\u{672c}\u{8a9e}\u{65e5}\u{672c}\u{8a9e}\u{65e5}\u{672c}\u{8a9e}\u{65e5}\u{672c}\u{8a9e}\u{65e5}\u{672c}\u{8a9e}\u{65e5}\u{672c}\u{8a9e}",
        "\u{1f680}\u{1f680}\u{1f680}\u{1f680} launch \u{1f680}\u{1f680}\u{1f680}\u{1f680}\u{1f680}\u{1f680}\u{1f680}\u{1f680}\u{1f680}\u{1f680}\u{1f680}\u{1f680}",
        "e\u{301}te\u{301} e\u{301}te\u{301} e\u{301}te\u{301} e\u{301}te\u{301} e\u{301}te\u{301} e\u{301}te\u{301}",
        "\u{dc}n\u{ef}c\u{f6}d\u{e9} \u{df}tring \u{dc}n\u{ef}c\u{f6}d\u{e9} \u{df}tring \u{dc}n\u{ef}c\u{f6}d\u{e9} \u{df}tring",
        "\x1b[31mred\x1b[0m text \x1b[1;32mgreen and bold and long enough to be cut\x1b[0m",
        "\u{2588}\u{2588}\u{2591}\u{2591}\u{2026}\u{2588}\u{2588}\u{2591}\u{2591}\u{2026}\u{2588}\u{2588}\u{2591}\u{2591}\u{2026}\u{2588}\u{2588}\u{2591}\u{2591}\u{2026}",
    ];
    let clock = std::sync::Arc::new(AtomicU64::new(14_000_000_000));
    crate::world::install_session(&clock);
    let len0 = *rng.pick(&[None, Some(0u64), Some(1), Some(10), Some(1 << 63), Some(u64::MAX - 1), Some(u64::MAX)]);
    let width = *rng.pick(&[0u16, 1, 7, 80, 300]);
    let (pb, _spy) = new_bar(width, 60000, len0);
    let mut history: Vec<String> = Vec::new();
    let mut co = CaseOut::held(0, true);
    let res = catch_unwind(AssertUnwindSafe(|| {
        pb.set_style(ProgressStyle::with_template(&tmpl).unwrap());
        let n = rng.range(1, 12);
        for _ in 0..n {
            let adv: u64 = match rng.below(6) {
                0 => 1,
                1 => rng.range(1, 1_000_000),
                2 => rng.range(1, 5_000) * 1_000_000,
                3 => rng.range(1, 100) * 3_600_000_000_000,
                4 => rng.range(1, 40) * 365 * 86_400_000_000_000,
                _ => 1_100_000_000,
            };
            clock.fetch_add(adv, Ordering::SeqCst);
            let big = *rng.pick(&[1u64, 2, 1000, 1 << 32, 1 << 62, u64::MAX / 2, u64::MAX - 1, u64::MAX]);
            let op = rng.below(16);
            history.push(format!("+{adv}ns op{op}({big})"));
            match op {
                14 => pb.set_message(*rng.pick(&TEXTS)),
                15 => pb.set_prefix(*rng.pick(&TEXTS)),
                0 | 1 => pb.inc(1),
                2 => pb.inc(big),
                3 => pb.set_position(big),
                4 => pb.set_length(big),
                5 => pb.unset_length(),
                6 => pb.inc_length(big),
                7 => pb.dec_length(big),
                8 => pb.tick(),
                9 => pb.reset_eta(),
                10 => pb.reset_elapsed(),
                11 => pb.reset(),
                12 => pb.set_position(rng.range(0, 20)),
                _ => pb.dec(1),
            }
            pb.force_draw();
            let _ = (pb.eta(), pb.duration(), pb.per_sec(), pb.elapsed(), pb.position(), pb.length());
        }
        match rng.below(4) {
            0 => pb.finish(),
            1 => pb.abandon(),
            _ => {}
        }
        clock.fetch_add(rng.range(1, 10) * 1_000_000_000, Ordering::SeqCst);
        pb.force_draw();
        let _ = (pb.eta(), pb.duration(), pb.per_sec(), pb.elapsed());
        pb.abandon();
    }));
    co.hash = fnv1a(format!("{tmpl}{len0:?}{history:?}").as_bytes());
    if let Err(p) = res {
        std::mem::forget(pb);
        co.verdict = Verdict::Violated(Box::new(Violation {
            rule: "render-panic".into(),
            features: vec!["state-sweep".into()],
            detail: format!(
                "a style with every documented key panicked for a reachable bar state (initial length {len0:?}, terminal width {width}, history {history:?}): {}",
                crate::world::panic_message(&p)
            ),
            witness: J::obj().with("template", tmpl).with("initial_length", format!("{len0:?}")).with("history", J::Arr(history.iter().map(|h| J::from(h.clone())).collect())),
            replay,
        }));
    }
    indicatif::verif_hooks::install(None);
    co.count("state_sweep_draws", history.len() as u64 + 1);
    co
}

pub fn run(cfg: &RunCfg) -> PropResult {
    console::set_colors_enabled(false);
    let report = if let Some(case) = &cfg.case {
        let sweep = case.starts_with('s');
        let mut it = case.trim_start_matches('s').split(':');
        let seed: u64 = it.next().and_then(|s| s.parse().ok()).unwrap_or(cfg.seed);
        let idx: u64 = it.next().and_then(|s| s.parse().ok()).unwrap_or(0);
        let mut r = crate::report::Report::default();
        r.add(idx, if sweep { state_sweep_case(seed, idx) } else { run_case(seed, idx) });
        r
    } else {
        let n = if cfg.thorough { 1_000_000 } else { 20_000 };
        let mut r = run_parallel(n, workers(), |i| run_case(cfg.seed, i));
        let ns = if cfg.thorough { 1_500_000 } else { 30_000 };
        r.merge(crate::report::run_parallel_tagged('s', ns, workers(), |i| state_sweep_case(cfg.seed, i)));
        r
    };
    PropResult {
        report,
        rule: "each evaluation: 1-3 builder calls (tick_chars with 0/1/2/3/5/30 characters, tick_strings with 0/1/2/3/8 strings incl. empty and multi-column ones, progress_chars with 0..10 clusters of equal / mixed / zero width, with_key, template) on a base style; a build-time panic is an accepted rejection; an accepted style is then asked for its tick strings at 12 tick values up to u64::MAX and drawn for 6 states x 4 terminal widths with 3 ticks each, every step under catch_unwind; distinct = hash of (base template, builder calls); state sweep: a style with all 28 documented keys drawn after each of 1-12 operations of an extreme history on a virtual clock (lengths 0/1/2^63/u64::MAX/none, u64-extreme positions, steps nanoseconds to decades apart, resets, finish/abandon), time getters included".into(),
        exhaustive: false,
    }
}
