#!/bin/bash
# usage: regress_seeds_bx.sh <scratch-dir> seed-ids...   regress_seeds.sh in a persistent scratch environment (see try_scratch.sh)
bx=$1; shift
cd /verif
for id in "$@"; do
  prop=${id:0:3}
  alt=$(python3 -c "import json,sys; print(json.load(open('/verif/seeded/$id/meta.json')).get('regress_with',''))" 2>/dev/null); [ -n "$alt" ] && prop=$alt
  out=$(BX=$bx driver/try_scratch.sh seeded/$id/patch.diff $prop 2>&1)
  if echo "$out" | grep -q "^VIOLATION"; then echo "$id caught $(echo "$out" | grep -m1 signature | cut -c1-110)"; elif echo "$out" | grep -q "^OK"; then echo "$id MISSED"; else echo "$id INCONCLUSIVE $(echo "$out" | head -2 | cut -c1-120)"; fi
done
