//! SpyTerm: the `TermLike` the harness hands to indicatif. Every call is counted, optionally
//! logged, optionally failed (fault plan), and applied to a VScreen; the same byte stream is fed
//! to a `vt100::Parser` and both are compared at every flush (oracle self-check).

use crate::vscreen::VScreen;
use indicatif::TermLike;
use std::io;
use std::sync::atomic::{AtomicU64, Ordering};
use std::sync::{Arc, Mutex, MutexGuard};

#[derive(Clone, Copy, Debug, PartialEq, Eq, Hash, PartialOrd, Ord)]
pub enum CallKind {
    Up,
    Down,
    Left,
    Right,
    WriteLine,
    WriteStr,
    ClearLine,
    Flush,
}

#[derive(Clone, Debug)]
pub struct Call {
    pub kind: CallKind,
    pub n: usize,
    pub text: Option<String>,
    pub op: u64,
    pub failed: bool,
}

/// What the screen looked like at a flush (or at another probe point).
#[derive(Clone, Debug)]
pub struct Snap {
    /// index of the mutating call that triggered the snapshot (1-based count so far)
    pub at_call: u64,
    pub op: u64,
    /// text of every row (scrollback + screen), trailing blank rows dropped
    pub rows: Vec<String>,
    /// where the next printable character would land (absolute row, col)
    pub next_pos: (usize, usize),
    pub top: usize,
    pub total_rows: usize,
    /// number of user lines (suspend closures) written before this snapshot
    pub user_lines: usize,
    /// harness-supplied extra observation taken atomically with the flush
    pub extra: Vec<u64>,
    pub kind: SnapKind,
}

#[derive(Clone, Copy, Debug, PartialEq, Eq)]
pub enum SnapKind {
    Flush,
    ClosureStart,
}

#[derive(Clone, Copy, Debug, Default)]
pub struct FaultPlan {
    /// fail the k-th mutating call (1-based); 0 = never
    pub fail_at: u64,
    pub and_later: bool,
    /// which io::ErrorKind the injected errors carry (index into FAULT_KINDS)
    pub kind: u8,
}

/// Error kinds a terminal write can plausibly fail with; none of them may be treated as success.
pub const FAULT_KINDS: [io::ErrorKind; 7] = [
    io::ErrorKind::Other,
    io::ErrorKind::BrokenPipe,
    io::ErrorKind::Interrupted,
    io::ErrorKind::WouldBlock,
    io::ErrorKind::TimedOut,
    io::ErrorKind::WriteZero,
    io::ErrorKind::UnexpectedEof,
];

pub type ExtraFn = Arc<dyn Fn() -> Vec<u64> + Send + Sync>;

pub struct SpyState {
    pub screen: VScreen,
    vt: Option<vt100::Parser>,
    pub calls: u64,
    pub flushes: u64,
    pub log: Option<Vec<Call>>,
    pub snaps: Vec<Snap>,
    pub snap_on_flush: bool,
    pub fault: FaultPlan,
    pub faults_injected: u64,
    pub vt_checks: u64,
    pub vt_mismatch: u64,
    pub vt_crashed: bool,
    pub vt_mismatch_sample: Option<String>,
    pub user_lines: usize,
    pub extra: Option<ExtraFn>,
    /// thread ids (std) of flush callers, in order — used by the ticker monitors
    pub flush_threads: Vec<std::thread::ThreadId>,
    /// session-local logical thread ids (verif-hooks) of flush callers, in order
    pub flush_logical: Vec<Option<u32>>,
    pub record_flush_threads: bool,
}

#[derive(Clone)]
pub struct SpyTerm {
    width: u16,
    height: u16,
    st: Arc<Mutex<SpyState>>,
    pub cur_op: Arc<AtomicU64>,
}

impl std::fmt::Debug for SpyTerm {
    fn fmt(&self, f: &mut std::fmt::Formatter<'_>) -> std::fmt::Result {
        write!(f, "SpyTerm({}x{})", self.width, self.height)
    }
}

impl SpyTerm {
    pub fn new(width: u16, height: u16, cross_check: bool) -> Self {
        let st = SpyState {
            screen: VScreen::new(width, height),
            vt: cross_check.then(|| vt100::Parser::new(height.max(1), width.max(1), 0)),
            calls: 0,
            flushes: 0,
            log: None,
            snaps: Vec::new(),
            snap_on_flush: true,
            fault: FaultPlan::default(),
            faults_injected: 0,
            vt_checks: 0,
            vt_mismatch: 0,
            vt_crashed: false,
            vt_mismatch_sample: None,
            user_lines: 0,
            extra: None,
            flush_threads: Vec::new(),
            flush_logical: Vec::new(),
            record_flush_threads: false,
        };
        Self {
            width,
            height,
            st: Arc::new(Mutex::new(st)),
            cur_op: Arc::new(AtomicU64::new(0)),
        }
    }

    pub fn state(&self) -> MutexGuard<'_, SpyState> {
        match self.st.lock() {
            Ok(g) => g,
            Err(p) => p.into_inner(),
        }
    }

    pub fn boxed(&self) -> Box<dyn TermLike> {
        Box::new(self.clone())
    }

    pub fn enable_log(&self) {
        self.state().log = Some(Vec::new());
    }

    pub fn set_fault(&self, plan: FaultPlan) {
        self.state().fault = plan;
    }

    pub fn calls(&self) -> u64 {
        self.state().calls
    }

    pub fn flushes(&self) -> u64 {
        self.state().flushes
    }

    pub fn take_snaps(&self) -> Vec<Snap> {
        std::mem::take(&mut self.state().snaps)
    }

    /// A line written by "the user" (the closure given to suspend): bypasses call counting.
    pub fn user_write_line(&self, s: &str) {
        let mut st = self.state();
        let bytes = format!("{s}\r\n");
        st.feed(&bytes);
        st.user_lines += 1;
    }

    /// Take a snapshot now (used at the start of a suspend closure).
    pub fn probe(&self, kind: SnapKind) {
        let op = self.cur_op.load(Ordering::SeqCst);
        let mut st = self.state();
        let snap = st.make_snap(op, kind);
        st.snaps.push(snap);
    }

    pub fn snapshot_now(&self) -> Snap {
        let op = self.cur_op.load(Ordering::SeqCst);
        self.state().make_snap(op, SnapKind::Flush)
    }

    fn call(&self, kind: CallKind, n: usize, text: Option<&str>) -> io::Result<()> {
        let op = self.cur_op.load(Ordering::SeqCst);
        let mut st = self.state();
        st.calls += 1;
        let k = st.calls;
        let fail = st.fault.fail_at != 0
            && (k == st.fault.fail_at || (st.fault.and_later && k > st.fault.fail_at));
        if let Some(log) = &mut st.log {
            log.push(Call {
                kind,
                n,
                text: text.map(|t| t.to_string()),
                op,
                failed: fail,
            });
        }
        if fail {
            st.faults_injected += 1;
            let kind = FAULT_KINDS[st.fault.kind as usize % FAULT_KINDS.len()];
            return Err(io::Error::new(kind, "injected terminal fault"));
        }
        match kind {
            CallKind::Up => {
                if n > 0 {
                    st.feed(&format!("\x1b[{n}A"));
                }
            }
            CallKind::Down => {
                if n > 0 {
                    st.feed(&format!("\x1b[{n}B"));
                }
            }
            CallKind::Right => {
                if n > 0 {
                    st.feed(&format!("\x1b[{n}C"));
                }
            }
            CallKind::Left => {
                if n > 0 {
                    st.feed(&format!("\x1b[{n}D"));
                }
            }
            CallKind::WriteLine => {
                let s = format!("{}\r\n", text.unwrap_or(""));
                st.feed(&s);
            }
            CallKind::WriteStr => st.feed(text.unwrap_or("")),
            CallKind::ClearLine => st.feed("\r\x1b[2K"),
            CallKind::Flush => {
                st.flushes += 1;
                if st.record_flush_threads {
                    st.flush_threads.push(std::thread::current().id());
                    st.flush_logical.push(indicatif::verif_hooks::current_thread());
                }
                st.cross_check();
                if st.snap_on_flush {
                    let snap = st.make_snap(op, SnapKind::Flush);
                    st.snaps.push(snap);
                }
            }
        }
        Ok(())
    }
}

impl SpyState {
    fn feed(&mut self, s: &str) {
        self.screen.feed(s);
        if let Some(vt) = &mut self.vt {
            // the cross-checker must never take the case down with it
            let ok = std::panic::catch_unwind(std::panic::AssertUnwindSafe(|| vt.process(s.as_bytes()))).is_ok();
            if !ok {
                self.vt = None;
                self.vt_crashed = true;
            }
        }
    }

    fn make_snap(&mut self, op: u64, kind: SnapKind) -> Snap {
        Snap {
            at_call: self.calls,
            op,
            rows: self.screen.all_rows(),
            next_pos: self.screen.next_char_pos(),
            top: self.screen.top,
            total_rows: self.screen.total_rows(),
            user_lines: self.user_lines,
            extra: self.extra.as_ref().map(|f| f()).unwrap_or_default(),
            kind,
        }
    }

    /// Compare the visible grid with vt100's; a difference is a defect of the oracle.
    fn cross_check(&mut self) {
        let Some(vt) = &self.vt else { return };
        self.vt_checks += 1;
        let mine = self.screen.visible_rows();
        let cols = self.screen.cols as u16;
        let theirs: Vec<String> = vt
            .screen()
            .rows(0, cols)
            .map(|r| r.trim_end().to_string())
            .collect();
        if mine != theirs {
            self.vt_mismatch += 1;
            if self.vt_mismatch_sample.is_none() {
                self.vt_mismatch_sample = Some(format!(
                    "vscreen={mine:?} vt100={theirs:?}"
                ));
            }
        }
    }
}

impl TermLike for SpyTerm {
    fn width(&self) -> u16 {
        self.width
    }
    fn height(&self) -> u16 {
        self.height
    }
    fn move_cursor_up(&self, n: usize) -> io::Result<()> {
        self.call(CallKind::Up, n, None)
    }
    fn move_cursor_down(&self, n: usize) -> io::Result<()> {
        self.call(CallKind::Down, n, None)
    }
    fn move_cursor_right(&self, n: usize) -> io::Result<()> {
        self.call(CallKind::Right, n, None)
    }
    fn move_cursor_left(&self, n: usize) -> io::Result<()> {
        self.call(CallKind::Left, n, None)
    }
    fn write_line(&self, s: &str) -> io::Result<()> {
        self.call(CallKind::WriteLine, 0, Some(s))
    }
    fn write_str(&self, s: &str) -> io::Result<()> {
        self.call(CallKind::WriteStr, 0, Some(s))
    }
    fn clear_line(&self) -> io::Result<()> {
        self.call(CallKind::ClearLine, 0, None)
    }
    fn flush(&self) -> io::Result<()> {
        self.call(CallKind::Flush, 0, None)
    }
}
