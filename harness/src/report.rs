//! Verdicts, per-run aggregation and the result file handed to the Python driver.

use crate::json::J;
use std::collections::{BTreeMap, HashSet};
use std::sync::atomic::{AtomicU64, Ordering};
use std::sync::Mutex;

#[derive(Clone, Debug)]
pub struct Violation {
    /// which oracle rule fired (fixed vocabulary per property)
    pub rule: String,
    /// features of the (minimised) witness, fixed vocabulary, sorted
    pub features: Vec<String>,
    /// human readable: what was expected, what was seen
    pub detail: String,
    /// the witness (minimised history / input), written into the replay file
    pub witness: J,
    /// arguments that re-run exactly this case: `vh <prop> --case <replay>`
    pub replay: String,
}

impl Violation {
    pub fn signature(&self) -> String {
        let mut f = self.features.clone();
        f.sort();
        f.dedup();
        if f.is_empty() {
            self.rule.clone()
        } else {
            format!("{} [{}]", self.rule, f.join(","))
        }
    }
}

#[derive(Clone, Debug)]
pub enum Verdict {
    Held,
    Violated(Box<Violation>),
    Inconclusive(String),
}

#[derive(Clone, Debug)]
pub struct CaseOut {
    pub verdict: Verdict,
    /// non-trivial by the property's stated rule
    pub nontrivial: bool,
    /// hash identifying the case for distinctness
    pub hash: u64,
    pub counters: Vec<(&'static str, u64)>,
    pub maxes: Vec<(&'static str, u64)>,
    /// distinct things seen (name, hash) — counted as set sizes in the evidence
    pub seen: Vec<(&'static str, u64)>,
    pub sample: Option<J>,
}

impl CaseOut {
    pub fn held(hash: u64, nontrivial: bool) -> Self {
        Self {
            verdict: Verdict::Held,
            nontrivial,
            hash,
            counters: Vec::new(),
            maxes: Vec::new(),
            seen: Vec::new(),
            sample: None,
        }
    }
    pub fn count(&mut self, k: &'static str, v: u64) {
        self.counters.push((k, v));
    }
    pub fn max(&mut self, k: &'static str, v: u64) {
        self.maxes.push((k, v));
    }
    pub fn see(&mut self, k: &'static str, h: u64) {
        self.seen.push((k, h));
    }
}

#[derive(Default)]
pub struct Report {
    pub evaluations: u64,
    pub distinct: HashSet<u64>,
    pub counters: BTreeMap<String, u64>,
    pub maxes: BTreeMap<String, u64>,
    pub seen: BTreeMap<String, HashSet<u64>>,
    pub samples: Vec<(u64, J)>,
    pub violations: BTreeMap<String, (u64, u64, Violation)>, // signature -> (count, first index, example)
    pub inconclusive: u64,
    pub inconclusive_reasons: BTreeMap<String, u64>,
    pub notes: Vec<String>,
    pub extra: BTreeMap<String, J>,
}

const MAX_SAMPLES: usize = 6;

impl Report {
    pub fn add(&mut self, idx: u64, out: CaseOut) {
        self.evaluations += 1;
        if out.nontrivial {
            self.distinct.insert(out.hash);
        }
        for (k, v) in out.counters {
            *self.counters.entry(k.to_string()).or_default() += v;
        }
        for (k, v) in out.maxes {
            let e = self.maxes.entry(k.to_string()).or_default();
            *e = (*e).max(v);
        }
        for (k, h) in out.seen {
            self.seen.entry(k.to_string()).or_default().insert(h);
        }
        if let Some(s) = out.sample {
            self.samples.push((idx, s));
            self.samples.sort_by_key(|(i, _)| *i);
            self.samples.truncate(MAX_SAMPLES);
        }
        match out.verdict {
            Verdict::Held => {}
            Verdict::Inconclusive(why) => {
                self.inconclusive += 1;
                *self.inconclusive_reasons.entry(why).or_default() += 1;
            }
            Verdict::Violated(v) => {
                let sig = v.signature();
                match self.violations.get_mut(&sig) {
                    Some(e) => {
                        e.0 += 1;
                        if idx < e.1 {
                            e.1 = idx;
                            e.2 = *v;
                        }
                    }
                    None => {
                        self.violations.insert(sig, (1, idx, *v));
                    }
                }
            }
        }
    }

    pub fn merge(&mut self, other: Report) {
        self.evaluations += other.evaluations;
        self.distinct.extend(other.distinct);
        for (k, v) in other.counters {
            *self.counters.entry(k).or_default() += v;
        }
        for (k, v) in other.maxes {
            let e = self.maxes.entry(k).or_default();
            *e = (*e).max(v);
        }
        for (k, s) in other.seen {
            self.seen.entry(k).or_default().extend(s);
        }
        self.samples.extend(other.samples);
        self.samples.sort_by_key(|(i, _)| *i);
        self.samples.truncate(MAX_SAMPLES);
        for (sig, (c, i, v)) in other.violations {
            match self.violations.get_mut(&sig) {
                Some(e) => {
                    e.0 += c;
                    if i < e.1 {
                        e.1 = i;
                        e.2 = v;
                    }
                }
                None => {
                    self.violations.insert(sig, (c, i, v));
                }
            }
        }
        self.inconclusive += other.inconclusive;
        for (k, v) in other.inconclusive_reasons {
            *self.inconclusive_reasons.entry(k).or_default() += v;
        }
        self.notes.extend(other.notes);
        self.extra.extend(other.extra);
    }

    pub fn to_json(&self, property: &str, rule: &str, exhaustive: bool) -> J {
        let mut cov = J::obj();
        cov.set("evaluations", self.evaluations);
        cov.set("distinct_nontrivial", self.distinct.len());
        cov.set("rule", rule);
        cov.set("exhaustive", exhaustive);
        cov.set(
            "samples",
            J::Arr(self.samples.iter().map(|(_, s)| s.clone()).collect()),
        );
        let mut obs = J::obj();
        for (k, v) in &self.counters {
            obs.set(k, *v);
        }
        for (k, v) in &self.maxes {
            obs.set(&format!("max_{k}"), *v);
        }
        for (k, s) in &self.seen {
            obs.set(&format!("distinct_{k}"), s.len());
        }
        for (k, v) in &self.extra {
            obs.set(k, v.clone());
        }
        cov.set("observed", obs);
        cov.set("inconclusive", self.inconclusive);
        let mut reasons = J::obj();
        for (k, v) in &self.inconclusive_reasons {
            reasons.set(k, *v);
        }
        cov.set("inconclusive_reasons", reasons);
        let viols: Vec<J> = self
            .violations
            .iter()
            .map(|(sig, (count, idx, v))| {
                J::obj()
                    .with("signature", sig)
                    .with("rule", &v.rule)
                    .with("features", v.features.clone())
                    .with("count", *count)
                    .with("first_index", *idx)
                    .with("detail", &v.detail)
                    .with("witness", v.witness.clone())
                    .with("replay", &v.replay)
            })
            .collect();
        J::obj()
            .with("property", property)
            .with("coverage", cov)
            .with("violations", J::Arr(viols))
            .with("notes", self.notes.clone())
    }
}

// ---- resource watchdog ------------------------------------------------------------------------------
// Every worker publishes the case it is executing. A watchdog thread samples the process' resident set
// and the age of the oldest running case. A render that allocates gigabytes (e.g. a column count that
// wrapped around) would otherwise end in an allocation-failure abort or an OOM kill that takes the
// whole lane with it; the watchdog turns it into a named case. Memory blow-up is reported by the
// driver as a violation (`resource-blowup [memory]`, replayable); a case that is merely old is
// reported as inconclusive -- wall-clock age is never a verdict.
const SLOTS: usize = 256;
#[allow(clippy::declare_interior_mutable_const)]
const ZERO: AtomicU64 = AtomicU64::new(0);
static CUR: [AtomicU64; SLOTS] = [ZERO; SLOTS];
static SINCE: [AtomicU64; SLOTS] = [ZERO; SLOTS];
static NEXT_SLOT: AtomicU64 = AtomicU64::new(0);
static LANE_TAG: AtomicU64 = AtomicU64::new(0);
static T0: std::sync::OnceLock<std::time::Instant> = std::sync::OnceLock::new();

fn now_ms() -> u64 {
    T0.get_or_init(std::time::Instant::now).elapsed().as_millis() as u64
}

/// Sub-lanes whose replay specs carry a one-letter prefix announce it before `run_parallel`.
pub fn set_lane_tag(tag: Option<char>) {
    LANE_TAG.store(tag.map(|c| c as u64).unwrap_or(0), Ordering::Relaxed);
}

fn case_spec(idx: u64) -> String {
    let tag = LANE_TAG.load(Ordering::Relaxed);
    let t = if tag == 0 { String::new() } else { char::from_u32(tag as u32).unwrap_or('?').to_string() };
    format!("{t}{}:{idx}", current_seed())
}

fn rss_bytes() -> u64 {
    std::fs::read_to_string("/proc/self/statm")
        .ok()
        .and_then(|s| s.split_whitespace().nth(1).and_then(|v| v.parse::<u64>().ok()))
        .map(|pages| pages * 4096)
        .unwrap_or(0)
}

pub fn start_watchdog(out: String, fallback_case: Option<String>) {
    now_ms();
    let limit = std::env::var("VH_RSS_LIMIT_MB").ok().and_then(|s| s.parse::<u64>().ok()).unwrap_or(8192) << 20;
    let max_age = std::env::var("VH_CASE_TIMEOUT_S").ok().and_then(|s| s.parse::<u64>().ok()).unwrap_or(400) * 1000;
    std::thread::spawn(move || loop {
        std::thread::sleep(std::time::Duration::from_millis(20));
        let rss = rss_bytes();
        let now = now_ms();
        let mut running: Vec<(u64, u64)> = Vec::new();
        for s in 0..SLOTS {
            let c = CUR[s].load(Ordering::Relaxed);
            if c != 0 {
                running.push((SINCE[s].load(Ordering::Relaxed), c - 1));
            }
        }
        running.sort();
        let oldest = running.first().copied();
        let kind = if rss > limit {
            "memory"
        } else if oldest.map_or(false, |(since, _)| now.saturating_sub(since) > max_age) {
            "stuck"
        } else {
            continue;
        };
        let case = match (oldest, &fallback_case) {
            (_, Some(c)) => c.clone(),
            (Some((_, idx)), None) => case_spec(idx),
            (None, None) => String::from("?"),
        };
        let others: Vec<String> = running.iter().skip(1).map(|(_, i)| format!("\"{}\"", case_spec(*i))).collect();
        let body = format!(
            "{{\"kind\":\"{kind}\",\"rss_mb\":{},\"case\":\"{case}\",\"age_ms\":{},\"also_running\":[{}]}}",
            rss >> 20,
            oldest.map_or(0, |(since, _)| now.saturating_sub(since)),
            others.join(",")
        );
        let _ = std::fs::write(format!("{out}.watchdog"), body);
        eprintln!("watchdog: {kind} rss={} MiB case={case}", rss >> 20);
        std::process::exit(if kind == "memory" { 3 } else { 4 });
    });
}

/// `run_parallel` for a sub-lane whose replay specs start with `tag`.
pub fn run_parallel_tagged<F>(tag: char, n: u64, workers: usize, f: F) -> Report
where
    F: Fn(u64) -> CaseOut + Sync,
{
    set_lane_tag(Some(tag));
    let r = run_parallel(n, workers, f);
    set_lane_tag(None);
    r
}

/// Run `n` cases on `workers` threads. Case indices are handed out dynamically; the merged
/// report does not depend on the schedule (sets, sums, maxima, lowest-index samples).
pub fn run_parallel<F>(n: u64, workers: usize, f: F) -> Report
where
    F: Fn(u64) -> CaseOut + Sync,
{
    let next = AtomicU64::new(0);
    // a run that has already seen plenty of violations stops early: it is a failing run anyway and
    // deadlock-style violations cost seconds each
    let violations_seen = AtomicU64::new(0);
    let total = Mutex::new(Report::default());
    std::thread::scope(|s| {
        for _ in 0..workers.max(1) {
            s.spawn(|| {
                let slot = (NEXT_SLOT.fetch_add(1, Ordering::Relaxed) as usize) % SLOTS;
                let mut local = Report::default();
                loop {
                    let i = next.fetch_add(1, Ordering::Relaxed);
                    if i >= n || violations_seen.load(Ordering::Relaxed) >= 40 {
                        break;
                    }
                    SINCE[slot].store(now_ms(), Ordering::Relaxed);
                    CUR[slot].store(i + 1, Ordering::Relaxed);
                    // a panic that escapes a case (e.g. a public getter panicking inside an oracle)
                    // is an observation, not a reason to lose the whole run
                    let out = match std::panic::catch_unwind(std::panic::AssertUnwindSafe(|| f(i))) {
                        Ok(out) => out,
                        Err(p) => {
                            let msg = if let Some(s) = p.downcast_ref::<&str>() {
                                s.to_string()
                            } else if let Some(s) = p.downcast_ref::<String>() {
                                s.clone()
                            } else {
                                "<non-string panic>".to_string()
                            };
                            let mut co = CaseOut::held(i, false);
                            co.verdict = Verdict::Violated(Box::new(Violation {
                                rule: "panic".into(),
                                features: vec!["escaped-the-case".into()],
                                detail: format!("case {i} panicked outside any guarded call: {msg}"),
                                witness: J::from(format!("case index {i}")),
                                replay: case_spec(i),
                            }));
                            co
                        }
                    };
                    CUR[slot].store(0, Ordering::Relaxed);
                    // (only for the blocking kinds: runs with recorded known findings must not be cut)
                    if matches!(&out.verdict, Verdict::Violated(v) if v.rule == "deadlock" || v.rule.starts_with("ticker")) {
                        violations_seen.fetch_add(1, Ordering::Relaxed);
                    }
                    local.add(i, out);
                }
                CUR[slot].store(0, Ordering::Relaxed);
                total.lock().unwrap().merge(local);
            });
        }
    });
    total.into_inner().unwrap()
}

static SEED: AtomicU64 = AtomicU64::new(1);

pub fn set_current_seed(s: u64) {
    SEED.store(s, Ordering::Relaxed);
}

pub fn current_seed() -> u64 {
    SEED.load(Ordering::Relaxed)
}

pub fn workers() -> usize {
    std::env::var("VERIF_WORKERS")
        .ok()
        .and_then(|s| s.parse().ok())
        .unwrap_or_else(|| std::thread::available_parallelism().map(|n| n.get()).unwrap_or(8))
}
