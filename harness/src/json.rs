//! Minimal JSON value + serialiser (the harness only writes JSON; replays are read by the
//! Python driver and handed back as command-line arguments).

use std::collections::BTreeMap;
use std::fmt::Write;

#[derive(Clone, Debug, PartialEq)]
pub enum J {
    Null,
    Bool(bool),
    Int(i128),
    Num(f64),
    Str(String),
    Arr(Vec<J>),
    Obj(BTreeMap<String, J>),
}

impl J {
    pub fn obj() -> J {
        J::Obj(BTreeMap::new())
    }

    pub fn set(&mut self, k: &str, v: impl Into<J>) -> &mut Self {
        if let J::Obj(m) = self {
            m.insert(k.to_string(), v.into());
        }
        self
    }

    pub fn with(mut self, k: &str, v: impl Into<J>) -> Self {
        self.set(k, v);
        self
    }

    pub fn render(&self) -> String {
        let mut s = String::new();
        self.write(&mut s);
        s
    }

    fn write(&self, out: &mut String) {
        match self {
            J::Null => out.push_str("null"),
            J::Bool(b) => out.push_str(if *b { "true" } else { "false" }),
            J::Int(i) => write!(out, "{i}").unwrap(),
            J::Num(f) => {
                if f.is_finite() {
                    write!(out, "{f}").unwrap();
                } else {
                    write!(out, "\"{f}\"").unwrap();
                }
            }
            J::Str(s) => write_str(out, s),
            J::Arr(a) => {
                out.push('[');
                for (i, x) in a.iter().enumerate() {
                    if i > 0 {
                        out.push(',');
                    }
                    x.write(out);
                }
                out.push(']');
            }
            J::Obj(m) => {
                out.push('{');
                for (i, (k, v)) in m.iter().enumerate() {
                    if i > 0 {
                        out.push(',');
                    }
                    write_str(out, k);
                    out.push(':');
                    v.write(out);
                }
                out.push('}');
            }
        }
    }
}

fn write_str(out: &mut String, s: &str) {
    out.push('"');
    for c in s.chars() {
        match c {
            '"' => out.push_str("\\\""),
            '\\' => out.push_str("\\\\"),
            '\n' => out.push_str("\\n"),
            '\r' => out.push_str("\\r"),
            '\t' => out.push_str("\\t"),
            c if (c as u32) < 0x20 || c == '\u{7f}' => write!(out, "\\u{:04x}", c as u32).unwrap(),
            c => out.push(c),
        }
    }
    out.push('"');
}

impl From<bool> for J {
    fn from(v: bool) -> J {
        J::Bool(v)
    }
}
impl From<&str> for J {
    fn from(v: &str) -> J {
        J::Str(v.to_string())
    }
}
impl From<String> for J {
    fn from(v: String) -> J {
        J::Str(v)
    }
}
impl From<&String> for J {
    fn from(v: &String) -> J {
        J::Str(v.clone())
    }
}
impl From<f64> for J {
    fn from(v: f64) -> J {
        J::Num(v)
    }
}
macro_rules! int_from {
    ($($t:ty),*) => {$(impl From<$t> for J { fn from(v: $t) -> J { J::Int(v as i128) } })*};
}
int_from!(u8, u16, u32, u64, usize, i32, i64, u128, i128);
impl<T: Into<J>> From<Vec<T>> for J {
    fn from(v: Vec<T>) -> J {
        J::Arr(v.into_iter().map(Into::into).collect())
    }
}
impl<T: Into<J>> From<Option<T>> for J {
    fn from(v: Option<T>) -> J {
        match v {
            Some(x) => x.into(),
            None => J::Null,
        }
    }
}
