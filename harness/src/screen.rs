//! Shared runner for the screen-oracle properties: executes generated histories in a World,
//! minimises failing ones, extracts the coarse feature set used for signatures.

use crate::gen::{gen_history, GenOpts};
use crate::json::J;
use crate::prng::{fnv1a, Rng};
use crate::report::{CaseOut, Verdict, Violation};
use crate::vscreen::cols_of;
use crate::world::{Fail, Op, Part, World, WorldCfg};
use unicode_width::UnicodeWidthChar;

pub struct Outcome {
    pub fail: Option<Fail>,
    pub stats: crate::world::Stats,
    pub vt_checks: u64,
    pub vt_mismatch: u64,
    pub vt_sample: Option<String>,
    pub vt_crashed: bool,
    pub wraps: u64,
    pub clamped_up: u64,
    pub op_obs: Vec<crate::world::OpObs>,
    pub getter_fail: Option<String>,
}

pub fn run_world(cfg: &WorldCfg, ops: &[Op], check_cursor: bool) -> Outcome {
    crate::vscreen::reset_straddle();
    let mut w = World::new(cfg.clone());
    w.check_cursor = check_cursor;
    w.run(ops);
    // getters must agree with the model for every bar that still has a handle
    let mut getter_fail = None;
    if w.fail.is_none() {
        for b in w.bars.iter().flatten() {
            if let Some(h) = b.handles.first() {
                if h.position() != b.m.pos
                    || h.length() != b.m.len
                    || h.is_finished() != b.m.finished()
                {
                    getter_fail = Some(format!(
                        "B{}: position {} / length {:?} / finished {} but the model has {} / {:?} / {}",
                        b.m.id,
                        h.position(),
                        h.length(),
                        h.is_finished(),
                        b.m.pos,
                        b.m.len,
                        b.m.finished()
                    ));
                }
            }
        }
    }
    // (the spy's own screen emulator lays out what was really written: its straddles count as well)
    w.stats.wide_char_at_margin = crate::vscreen::straddle_seen() || w.spy.state().screen.straddles > 0;
    let st = w.spy.state();
    let out = Outcome {
        fail: w.fail.clone(),
        stats: w.stats.clone(),
        vt_checks: st.vt_checks,
        vt_mismatch: st.vt_mismatch,
        vt_sample: st.vt_mismatch_sample.clone(),
        vt_crashed: st.vt_crashed,
        wraps: st.screen.wraps,
        clamped_up: st.screen.clamped_up,
        op_obs: w.op_obs.clone(),
        getter_fail,
    };
    drop(st);
    // dropping the world drops remaining handles (may draw); not checked. One at a time, so that a
    // panicking drop (poisoned lock after an earlier panic) cannot turn into a double panic.
    let World { bars, mp, .. } = w;
    for b in bars.into_iter().flatten() {
        for h in b.handles {
            if std::panic::catch_unwind(std::panic::AssertUnwindSafe(move || drop(h))).is_err() {
                break;
            }
        }
    }
    let _ = std::panic::catch_unwind(std::panic::AssertUnwindSafe(move || drop(mp)));
    indicatif::verif_hooks::install(None);
    out
}

/// Result of judging one history for one property.
pub struct Judged {
    pub rule: &'static str,
    pub detail: String,
}

pub type Judge = dyn Fn(&WorldCfg, &[Op], &Outcome) -> Option<Judged> + Sync;

/// Delta-debugging style minimisation: drop operations, then simplify texts and configuration,
/// keeping a candidate only if the same rule still fires.
pub fn shrink(cfg: &WorldCfg, ops: &[Op], rule: &str, judge: &Judge, check_cursor: bool) -> (WorldCfg, Vec<Op>) {
    let mut cfg = cfg.clone();
    let mut ops: Vec<Op> = ops.to_vec();
    let mut budget = 600usize;
    let fails = |cfg: &WorldCfg, ops: &[Op], budget: &mut usize| -> bool {
        if *budget == 0 {
            return false;
        }
        *budget -= 1;
        let out = run_world(cfg, ops, check_cursor);
        if out.vt_mismatch > 0 {
            return false;
        }
        matches!(judge(cfg, ops, &out), Some(j) if j.rule == rule)
    };
    // 1. cut the tail after the failing op: find shortest failing prefix by dropping from the end
    // 2. remove chunks
    let mut chunk = (ops.len() / 2).max(1);
    while chunk >= 1 {
        let mut i = 0;
        let mut progress = false;
        while i < ops.len() {
            let end = (i + chunk).min(ops.len());
            let mut cand = ops.clone();
            cand.drain(i..end);
            if !cand.is_empty() && fails(&cfg, &cand, &mut budget) {
                ops = cand;
                progress = true;
            } else {
                i += chunk;
            }
        }
        if chunk == 1 && !progress {
            break;
        }
        if !progress {
            chunk /= 2;
        }
        if budget == 0 {
            break;
        }
    }
    // 3. simplifications, each tested
    let try_map = |cfg: &mut WorldCfg, ops: &mut Vec<Op>, budget: &mut usize, f: &dyn Fn(&WorldCfg, &[Op]) -> (WorldCfg, Vec<Op>)| {
        let (c2, o2) = f(cfg, ops);
        if (c2 != *cfg || o2 != *ops) && fails(&c2, &o2, budget) {
            *cfg = c2;
            *ops = o2;
        }
    };
    try_map(&mut cfg, &mut ops, &mut budget, &|c, o| (c.clone(), map_texts(o, &narrow)));
    try_map(&mut cfg, &mut ops, &mut budget, &|c, o| (c.clone(), map_texts(o, &|s| crate::vscreen::strip_ansi(s))));
    try_map(&mut cfg, &mut ops, &mut budget, &|c, o| {
        let mut c = c.clone();
        c.hz = None;
        (c, o.to_vec())
    });
    try_map(&mut cfg, &mut ops, &mut budget, &|c, o| {
        (c.clone(), o.iter().filter(|x| !matches!(x, Op::Align(_))).cloned().collect())
    });
    try_map(&mut cfg, &mut ops, &mut budget, &|c, o| {
        let mut c = c.clone();
        c.height = c.height.max(200);
        (c, o.to_vec())
    });
    try_map(&mut cfg, &mut ops, &mut budget, &|c, o| {
        (c.clone(), o.iter().filter(|x| !matches!(x, Op::Advance(_))).cloned().collect())
    });
    // shorten texts so that nothing wraps
    try_map(&mut cfg, &mut ops, &mut budget, &|c, o| {
        let w = c.width as usize;
        (c.clone(), map_texts(o, &|s| s.split('\n').map(|l| truncate_cols(l, w.saturating_sub(14).max(1))).collect::<Vec<_>>().join("\n")))
    });
    // single-line texts
    try_map(&mut cfg, &mut ops, &mut budget, &|c, o| {
        (c.clone(), map_texts(o, &|s| s.split('\n').next().unwrap_or("").to_string()))
    });
    (cfg, ops)
}

fn narrow(s: &str) -> String {
    s.chars()
        .flat_map(|c| {
            if c.width().unwrap_or(0) == 2 {
                vec!['x', 'x']
            } else {
                vec![c]
            }
        })
        .collect()
}

fn truncate_cols(s: &str, cols: usize) -> String {
    let mut out = String::new();
    let mut c = 0;
    for ch in s.chars() {
        let w = ch.width().unwrap_or(0);
        if c + w > cols {
            break;
        }
        c += w;
        out.push(ch);
    }
    out
}

pub fn map_texts(ops: &[Op], f: &dyn Fn(&str) -> String) -> Vec<Op> {
    use crate::world::Fin;
    let ff = |fin: &Fin| match fin {
        Fin::WithMsg(m) => Fin::WithMsg(f(m)),
        Fin::AbandonMsg(m) => Fin::AbandonMsg(f(m)),
        x => x.clone(),
    };
    ops.iter()
        .map(|op| match op {
            Op::New { b, len, tmpl, fin, loc, msg, prefix } => Op::New {
                b: *b,
                len: *len,
                tmpl: tmpl.clone(),
                fin: ff(fin),
                loc: loc.clone(),
                msg: f(msg),
                prefix: f(prefix),
            },
            Op::Msg(b, t) => Op::Msg(*b, f(t)),
            Op::Prefix(b, t) => Op::Prefix(*b, f(t)),
            Op::Println(b, t) => Op::Println(*b, f(t)),
            Op::MpPrintln(t) => Op::MpPrintln(f(t)),
            Op::Suspend(b, l) => Op::Suspend(*b, l.iter().map(|x| f(x)).collect()),
            Op::MpSuspend(l) => Op::MpSuspend(l.iter().map(|x| f(x)).collect()),
            Op::FinishMsg(b, t) => Op::FinishMsg(*b, f(t)),
            Op::AbandonMsg(b, t) => Op::AbandonMsg(*b, f(t)),
            x => x.clone(),
        })
        .collect()
}

fn all_texts(ops: &[Op]) -> Vec<String> {
    let mut v = Vec::new();
    let _ = map_texts(ops, &|s| {
        // side effect free collector is awkward with Fn; handled below
        s.to_string()
    });
    use crate::world::Fin;
    for op in ops {
        match op {
            Op::New { msg, prefix, fin, .. } => {
                v.push(msg.clone());
                v.push(prefix.clone());
                if let Fin::WithMsg(m) | Fin::AbandonMsg(m) = fin {
                    v.push(m.clone());
                }
            }
            Op::Msg(_, t) | Op::Prefix(_, t) | Op::Println(_, t) | Op::MpPrintln(t) | Op::FinishMsg(_, t) | Op::AbandonMsg(_, t) => {
                v.push(t.clone())
            }
            Op::Suspend(_, l) | Op::MpSuspend(l) => v.extend(l.iter().cloned()),
            _ => {}
        }
    }
    v
}

/// Coarse, mechanically computed features of a (minimised) witness.
pub fn features(cfg: &WorldCfg, ops: &[Op], out: &Outcome) -> Vec<String> {
    let mut f: Vec<&str> = Vec::new();
    let texts = all_texts(ops);
    let w = cfg.width as usize;
    if texts.iter().any(|t| t.chars().any(|c| c.width().unwrap_or(0) == 2)) {
        f.push("wide-char");
    }
    if out.stats.wide_char_at_margin {
        f.push("wide-char-at-margin");
    }
    if texts.iter().any(|t| t.contains('\x1b')) {
        f.push("ansi");
    }
    if texts.iter().any(|t| t.contains('\t')) {
        f.push("tab");
    }
    if cfg.hz.is_some() {
        f.push("rate-limited");
    }
    if ops.iter().any(|o| matches!(o, Op::Align(true))) {
        f.push("align-bottom");
    }
    if out.stats.truncated_frames > 0 || out.stats.max_rows_requested > cfg.height as u64 {
        f.push("height-overflow");
    }
    if texts.iter().any(|t| t.split('\n').any(|l| cols_of(l) + 4 > w)) {
        f.push("wrap");
    }
    let tmpl_empty_line = |t: &Vec<Part>| {
        let mut prev_nl = true;
        for p in t {
            match p {
                Part::NL => {
                    if prev_nl {
                        return true;
                    }
                    prev_nl = true;
                }
                Part::Msg | Part::Prefix => {}
                _ => prev_nl = false,
            }
        }
        false
    };
    if ops.iter().any(|o| match o {
        Op::New { tmpl, .. } | Op::Style(_, tmpl) => tmpl_empty_line(tmpl),
        _ => false,
    }) || texts.iter().any(|t| t.ends_with('\n') || t.contains("\n\n"))
    {
        f.push("empty-line");
    }
    if cfg.multi {
        f.push("multi");
    }
    for (name, pred) in [
        ("bar-println", (|o: &Op| matches!(o, Op::Println(..))) as fn(&Op) -> bool),
        ("mp-println", |o| matches!(o, Op::MpPrintln(_))),
        ("suspend", |o| matches!(o, Op::Suspend(..) | Op::MpSuspend(_))),
        ("remove", |o| matches!(o, Op::Remove(_))),
        ("re-add", |o| matches!(o, Op::ReAdd(_))),
        ("mp-clear", |o| matches!(o, Op::MpClear)),
        ("drop", |o| matches!(o, Op::DropBar(_) | Op::DropOne(_))),
        ("set-style", |o| matches!(o, Op::Style(..))),
    ] {
        if ops.iter().any(pred) {
            f.push(name);
        }
    }
    f.into_iter().map(|s| s.to_string()).collect()
}

pub struct ScreenProp {
    pub id: &'static str,
    pub opts: Vec<(&'static str, GenOpts, u32)>, // (lane name, options, weight)
    pub judge: Box<Judge>,
    pub check_cursor: bool,
}

pub fn case_ops(prop: &ScreenProp, seed: u64, idx: u64) -> (usize, WorldCfg, Vec<Op>) {
    let mut rng = Rng::derive(seed, fnv1a(prop.id.as_bytes()), idx);
    let weights: Vec<u32> = prop.opts.iter().map(|(_, _, w)| *w).collect();
    let lane = rng.weighted(&weights);
    let (cfg, ops) = gen_history(&mut rng, &prop.opts[lane].1);
    (lane, cfg, ops)
}

pub fn run_case(prop: &ScreenProp, seed: u64, idx: u64, keep: Option<&[usize]>) -> CaseOut {
    let (lane, cfg, mut ops) = case_ops(prop, seed, idx);
    if let Some(keep) = keep {
        ops = keep.iter().filter_map(|i| ops.get(*i).cloned()).collect();
    }
    let out = run_world(&cfg, &ops, prop.check_cursor);
    let hash = fnv1a(format!("{cfg:?}{ops:?}").as_bytes());
    let nontrivial = out.stats.flushes_checked >= 2 && (out.stats.logs >= 1 || out.stats.frame_shrinks >= 1);
    let mut co = CaseOut::held(hash, nontrivial);
    co.count("ops", out.stats.ops);
    co.count("flushes_checked", out.stats.flushes_checked);
    co.count("frame_shrinks", out.stats.frame_shrinks);
    co.count("text_only_draws", out.stats.text_only_draws);
    co.count("log_lines", out.stats.logs);
    co.count("frames_truncated_by_height", out.stats.truncated_frames);
    co.count("finished_bars_left_as_text", out.stats.ghosts);
    co.count("removes", out.stats.removes);
    co.count("ops_without_draw", out.stats.skipped_draws);
    co.count("suspends", out.stats.suspends);
    co.count("rows_soft_wrapped", out.wraps);
    co.count("cursor_up_clamped", out.clamped_up);
    co.count("vt100_cross_checks", out.vt_checks);
    co.count("vt100_disagreements", out.vt_mismatch);
    co.count("vt100_crashed_cross_check_disabled", out.vt_crashed as u64);
    co.count("finishing_ops_checked", out.op_obs.iter().filter(|o| o.finishing).count() as u64);
    co.count("finishing_ops_that_must_paint", out.op_obs.iter().filter(|o| o.finishing && o.expect_flush).count() as u64);
    co.count("drops_of_finished_bars_checked", out.op_obs.iter().filter(|o| o.drop_finished).count() as u64);
    co.max("rows_requested", out.stats.max_rows_requested);
    co.see("terminal_sizes", ((cfg.width as u64) << 16) | cfg.height as u64);
    co.see("lanes", lane as u64);
    for w in ops.windows(2) {
        co.see("op_bigrams", fnv1a(format!("{}>{}", w[0].name(), w[1].name()).as_bytes()));
    }
    if idx < 3 {
        co.sample = Some(
            J::obj()
                .with("lane", prop.opts[lane].0)
                .with("terminal", format!("{}x{} hz={:?} multi={}", cfg.width, cfg.height, cfg.hz, cfg.multi))
                .with("ops", J::Arr(ops.iter().map(|o| o.to_json()).collect())),
        );
    }
    if out.vt_mismatch > 0 {
        eprintln!("oracle self-disagreement: {}", out.vt_sample.clone().unwrap_or_default());
        co.verdict = Verdict::Inconclusive("oracle self-disagreement (VScreen vs vt100)".into());
        return co;
    }
    if let Some(j) = (prop.judge)(&cfg, &ops, &out) {
        // minimise, then describe
        let (mcfg, mops) = shrink(&cfg, &ops, j.rule, &prop.judge, prop.check_cursor);
        let mout = run_world(&mcfg, &mops, prop.check_cursor);
        let (detail, feats) = match (prop.judge)(&mcfg, &mops, &mout) {
            Some(mj) if mj.rule == j.rule => (mj.detail, features(&mcfg, &mops, &mout)),
            _ => (j.detail.clone(), features(&cfg, &ops, &out)),
        };
        let witness = J::obj()
            .with("terminal", format!("{}x{} hz={:?} multi={}", mcfg.width, mcfg.height, mcfg.hz, mcfg.multi))
            .with("ops", J::Arr(mops.iter().map(|o| o.to_json()).collect()))
            .with("original_ops", ops.len());
        co.verdict = Verdict::Violated(Box::new(Violation {
            rule: j.rule.to_string(),
            features: feats,
            detail,
            witness,
            replay: format!("{seed}:{idx}"),
        }));
    } else if out.fail.is_some() {
        co.count("histories_cut_short_by_another_propertys_rule", 1);
    }
    co
}
