//! vh-adapt: C17 — iterator and I/O adaptors are transparent and count exactly.
//! Twin comparison: the same scripted source/sink is driven once bare and once wrapped in a
//! progress bar; every return value, byte and error must agree and `position()` must advance by
//! exactly what was transferred.

use futures_core::Stream;
use indicatif::{ParallelProgressIterator, ProgressBar, ProgressDrawTarget, ProgressFinish, ProgressIterator};
use rayon::prelude::*;
use std::io::{self, BufRead, IoSlice, IoSliceMut, Read, Seek, SeekFrom, Write};
use std::panic::{catch_unwind, AssertUnwindSafe};
use std::pin::Pin;
use std::task::{Context, Poll, Waker};
use tokio::io::{AsyncBufRead, AsyncRead, AsyncSeek, AsyncWrite, ReadBuf};
use vh::json::J;
use vh::prng::{fnv1a, Rng};
use vh::report::{run_parallel, workers, CaseOut, Report, Verdict, Violation};

fn viol(rule: &str, feat: &str, detail: String, w: J, replay: String) -> Verdict {
    Verdict::Violated(Box::new(Violation { rule: rule.into(), features: vec![feat.into()], detail, witness: w, replay }))
}

fn bar(len: Option<u64>, fin: ProgressFinish) -> ProgressBar {
    ProgressBar::with_draw_target(len, ProgressDrawTarget::hidden()).with_finish(fin)
}

// ------------------------------------------------------------------------------------------------
// Scripted sync source / sink
// ------------------------------------------------------------------------------------------------

#[derive(Clone, Debug)]
enum Step {
    Data(usize),
    Interrupted,
    Fail,
    Eof,
}

#[derive(Clone, Debug)]
struct Script {
    steps: Vec<Step>,
    at: usize,
    next_byte: u8,
    /// buffered-read state
    chunk: Vec<u8>,
    pos: u64,
}

impl Script {
    fn gen(rng: &mut Rng) -> Self {
        let n = rng.range(1, 25);
        let steps = (0..n)
            .map(|_| match rng.below(10) {
                0 => Step::Interrupted,
                1 => Step::Fail,
                2 => Step::Data(0),
                3 => Step::Eof,
                _ => Step::Data(rng.range(1, 40) as usize),
            })
            .collect();
        Self { steps, at: 0, next_byte: 0, chunk: Vec::new(), pos: 0 }
    }
    fn step(&mut self) -> Step {
        let s = self.steps.get(self.at).cloned().unwrap_or(Step::Eof);
        self.at += 1;
        s
    }
    fn bytes(&mut self, n: usize) -> Vec<u8> {
        (0..n)
            .map(|_| {
                self.next_byte = self.next_byte.wrapping_add(1);
                if self.next_byte == b'\n' || self.next_byte >= 0x80 {
                    self.next_byte = b'a'
                }
                self.next_byte
            })
            .collect()
    }
}

impl Read for Script {
    fn read(&mut self, buf: &mut [u8]) -> io::Result<usize> {
        match self.step() {
            Step::Data(n) => {
                let n = n.min(buf.len());
                let b = self.bytes(n);
                buf[..n].copy_from_slice(&b);
                self.pos += n as u64;
                Ok(n)
            }
            Step::Interrupted => Err(io::Error::new(io::ErrorKind::Interrupted, "scripted interrupt")),
            Step::Fail => Err(io::Error::new(io::ErrorKind::Other, "scripted failure")),
            Step::Eof => Ok(0),
        }
    }
}

impl BufRead for Script {
    fn fill_buf(&mut self) -> io::Result<&[u8]> {
        if self.chunk.is_empty() {
            match self.step() {
                Step::Data(n) => {
                    self.chunk = self.bytes(n);
                    if n > 3 && self.at % 3 == 0 {
                        self.chunk[n / 2] = b'\n';
                    }
                }
                Step::Interrupted => return Err(io::Error::new(io::ErrorKind::Interrupted, "scripted interrupt")),
                Step::Fail => return Err(io::Error::new(io::ErrorKind::Other, "scripted failure")),
                Step::Eof => {}
            }
        }
        Ok(&self.chunk)
    }
    fn consume(&mut self, amt: usize) {
        let amt = amt.min(self.chunk.len());
        self.chunk.drain(..amt);
        self.pos += amt as u64;
    }
}

impl Write for Script {
    fn write(&mut self, buf: &[u8]) -> io::Result<usize> {
        match self.step() {
            Step::Data(n) => {
                let n = n.min(buf.len());
                self.chunk.extend_from_slice(&buf[..n]);
                Ok(n)
            }
            Step::Interrupted => Err(io::Error::new(io::ErrorKind::Interrupted, "scripted interrupt")),
            Step::Fail => Err(io::Error::new(io::ErrorKind::Other, "scripted failure")),
            Step::Eof => Ok(0),
        }
    }
    fn flush(&mut self) -> io::Result<()> {
        match self.step() {
            Step::Fail => Err(io::Error::new(io::ErrorKind::Other, "scripted flush failure")),
            _ => Ok(()),
        }
    }
}

fn res_sig<T: std::fmt::Debug>(r: &io::Result<T>) -> String {
    match r {
        Ok(v) => format!("Ok({v:?})"),
        Err(e) => format!("Err({:?})", e.kind()),
    }
}

// ------------------------------------------------------------------------------------------------
// sync Read / BufRead / Write / Seek / Iterator
// ------------------------------------------------------------------------------------------------

fn case_read(rng: &mut Rng, replay: &str) -> (Verdict, u64) {
    let script = Script::gen(rng);
    let pb = bar(Some(1000), ProgressFinish::AndLeave);
    let mut bare = script.clone();
    let mut wrapped = pb.wrap_read(script.clone());
    let mut calls = 0;
    let w = |log: &Vec<String>| J::obj().with("adaptor", "Read").with("script", format!("{:?}", script.steps)).with("calls", J::from(log.clone()));
    let mut log = Vec::new();
    for _ in 0..rng.range(1, 30) {
        let before = pb.position();
        let size = rng.range(0, 50) as usize;
        let kind = rng.below(5);
        let (sa, sb, moved, exempt): (String, String, Option<u64>, bool) = match kind {
            0 | 1 => {
                let (mut a, mut b) = (vec![0u8; size], vec![0u8; size]);
                let (ra, rb) = (bare.read(&mut a), wrapped.read(&mut b));
                let m = rb.as_ref().ok().map(|n| *n as u64);
                (format!("{}{:?}", res_sig(&ra), a), format!("{}{:?}", res_sig(&rb), b), Some(m.unwrap_or(0)), false)
            }
            2 => {
                let (mut a1, mut a2, mut b1, mut b2) = (vec![0u8; size / 2], vec![0u8; size], vec![0u8; size / 2], vec![0u8; size]);
                let ra = bare.read_vectored(&mut [IoSliceMut::new(&mut a1), IoSliceMut::new(&mut a2)]);
                let rb = wrapped.read_vectored(&mut [IoSliceMut::new(&mut b1), IoSliceMut::new(&mut b2)]);
                let m = rb.as_ref().ok().map(|n| *n as u64);
                (format!("{}{:?}{:?}", res_sig(&ra), a1, a2), format!("{}{:?}{:?}", res_sig(&rb), b1, b2), Some(m.unwrap_or(0)), false)
            }
            3 => {
                let (mut a, mut b) = (vec![0u8; size], vec![0u8; size]);
                let (ra, rb) = (bare.read_exact(&mut a), wrapped.read_exact(&mut b));
                let ok = rb.is_ok();
                (res_sig(&ra), res_sig(&rb), ok.then_some(size as u64), !ok)
            }
            _ => {
                let (mut a, mut b) = (Vec::new(), Vec::new());
                let (ra, rb) = (bare.read_to_end(&mut a), wrapped.read_to_end(&mut b));
                let m = rb.as_ref().ok().map(|n| *n as u64);
                (format!("{}{:?}", res_sig(&ra), a), format!("{}{:?}", res_sig(&rb), b), m, rb.is_err())
            }
        };
        calls += 1;
        log.push(format!("kind {kind} size {size} -> {}", sb.chars().take(40).collect::<String>()));
        if sa != sb {
            return (viol("result-differs-from-bare-source", "Read", format!("call {calls}: wrapped {sb}, bare {sa}"), w(&log), replay.into()), calls);
        }
        let delta = pb.position().wrapping_sub(before);
        if !exempt && Some(delta) != moved {
            return (viol("position-not-bytes-transferred", "Read", format!("call {calls} (kind {kind}) transferred {moved:?} bytes, position moved by {delta}"), w(&log), replay.into()), calls);
        }
    }
    (Verdict::Held, calls)
}

fn case_bufread(rng: &mut Rng, replay: &str) -> (Verdict, u64) {
    let script = Script::gen(rng);
    let pb = bar(None, ProgressFinish::AndLeave);
    let mut bare = script.clone();
    let mut wrapped = pb.wrap_read(script.clone());
    let mut calls = 0;
    let mut log: Vec<String> = Vec::new();
    let w = |log: &Vec<String>| J::obj().with("adaptor", "BufRead").with("script", format!("{:?}", script.steps)).with("calls", J::from(log.clone()));
    for _ in 0..rng.range(1, 30) {
        let before = pb.position();
        let kind = rng.below(4);
        let (sa, sb, moved): (String, String, Option<u64>) = match kind {
            0 => {
                let ra = bare.fill_buf().map(|b| b.to_vec());
                let rb = wrapped.fill_buf().map(|b| b.to_vec());
                (res_sig(&ra), res_sig(&rb), Some(0))
            }
            1 => {
                // fill_buf, then consume a part of what is there
                let avail = wrapped.fill_buf().map(|b| b.len()).unwrap_or(0);
                let _ = bare.fill_buf();
                let amt = if avail == 0 { 0 } else { rng.range(0, avail as u64) as usize };
                bare.consume(amt);
                wrapped.consume(amt);
                (format!("consume({amt})"), format!("consume({amt})"), Some(amt as u64))
            }
            2 => {
                let (mut a, mut b) = (String::new(), String::new());
                let (ra, rb) = (bare.read_line(&mut a), wrapped.read_line(&mut b));
                let m = if rb.is_ok() { Some(b.len() as u64) } else { None };
                (format!("{}{a:?}", res_sig(&ra)), format!("{}{b:?}", res_sig(&rb)), m)
            }
            _ => {
                let (mut a, mut b) = (vec![0u8; 7], vec![0u8; 7]);
                let (ra, rb) = (bare.read(&mut a), wrapped.read(&mut b));
                let m = rb.as_ref().ok().map(|n| *n as u64);
                (format!("{}{a:?}", res_sig(&ra)), format!("{}{b:?}", res_sig(&rb)), Some(m.unwrap_or(0)))
            }
        };
        calls += 1;
        log.push(format!("kind {kind} -> {}", sb.chars().take(40).collect::<String>()));
        if sa != sb {
            return (viol("result-differs-from-bare-source", "BufRead", format!("call {calls}: wrapped {sb}, bare {sa}"), w(&log), replay.into()), calls);
        }
        let delta = pb.position().wrapping_sub(before);
        if let Some(m) = moved {
            if delta != m {
                return (viol("position-not-bytes-transferred", "BufRead", format!("call {calls} (kind {kind}) consumed {m} bytes, position moved by {delta}"), w(&log), replay.into()), calls);
            }
        }
        // conservation against the source's own cursor
        if wrapped.it_pos() != pb.position() && moved.is_some() {
            return (viol("position-not-bytes-transferred", "BufRead", format!("after call {calls}: source delivered {} bytes in total, position is {}", wrapped.it_pos(), pb.position()), w(&log), replay.into()), calls);
        }
    }
    (Verdict::Held, calls)
}

trait ItPos {
    fn it_pos(&self) -> u64;
}
impl ItPos for indicatif::ProgressBarIter<Script> {
    fn it_pos(&self) -> u64 {
        // ProgressBarIter does not expose the inner object; the bar is compared with the twin instead
        self.progress.position()
    }
}

fn case_write(rng: &mut Rng, replay: &str) -> (Verdict, u64) {
    let script = Script::gen(rng);
    let pb = bar(Some(500), ProgressFinish::AndLeave);
    let mut bare = script.clone();
    let mut wrapped = pb.wrap_write(script.clone());
    let mut calls = 0;
    let mut log: Vec<String> = Vec::new();
    let mut accepted_total = 0u64;
    let w = |log: &Vec<String>| J::obj().with("adaptor", "Write").with("script", format!("{:?}", script.steps)).with("calls", J::from(log.clone()));
    for _ in 0..rng.range(1, 30) {
        let before = pb.position();
        let data: Vec<u8> = (0..rng.range(0, 60)).map(|i| i as u8).collect();
        let kind = rng.below(4);
        let bare_before = bare.chunk.len();
        let (sa, sb): (String, String) = match kind {
            0 | 1 => (res_sig(&bare.write(&data)), res_sig(&wrapped.write(&data))),
            2 => {
                let half = data.len() / 2;
                let ra = bare.write_vectored(&[IoSlice::new(&data[..half]), IoSlice::new(&data[half..])]);
                let rb = wrapped.write_vectored(&[IoSlice::new(&data[..half]), IoSlice::new(&data[half..])]);
                (res_sig(&ra), res_sig(&rb))
            }
            3 if rng.chance(1, 2) => (res_sig(&bare.flush()), res_sig(&wrapped.flush())),
            _ => (res_sig(&bare.write_all(&data)), res_sig(&wrapped.write_all(&data))),
        };
        calls += 1;
        log.push(format!("kind {kind} len {} -> {sb}", data.len()));
        if sa != sb {
            return (viol("result-differs-from-bare-sink", "Write", format!("call {calls}: wrapped {sb}, bare {sa}"), w(&log), replay.into()), calls);
        }
        // the bare twin tells how many bytes the sink accepted during this call
        let accepted = (bare.chunk.len() - bare_before) as u64;
        accepted_total += accepted;
        let delta = pb.position().wrapping_sub(before);
        if delta != accepted {
            return (viol("position-not-bytes-transferred", "Write", format!("call {calls} (kind {kind}): the sink accepted {accepted} bytes, position moved by {delta}"), w(&log), replay.into()), calls);
        }
    }
    let _ = accepted_total;
    (Verdict::Held, calls)
}

fn case_seek(rng: &mut Rng, replay: &str) -> (Verdict, u64) {
    let data: Vec<u8> = (0..rng.range(0, 200)).map(|i| i as u8).collect();
    let pb = bar(Some(data.len() as u64), ProgressFinish::AndLeave);
    // (the stream may already be somewhere in the middle when it is wrapped)
    let start = if rng.chance(1, 3) { rng.range(0, data.len() as u64) } else { 0 };
    let mut bare = io::Cursor::new(data.clone());
    bare.set_position(start);
    let mut inner = io::Cursor::new(data.clone());
    inner.set_position(start);
    let mut wrapped = pb.wrap_read(inner);
    let mut calls = 0;
    let mut log: Vec<String> = Vec::new();
    let w = |log: &Vec<String>| J::obj().with("adaptor", "Seek").with("len", data.len()).with("calls", J::from(log.clone()));
    for _ in 0..rng.range(1, 25) {
        let before = pb.position();
        let kind = rng.below(7);
        let off = rng.range(0, 250) as i64 - 30;
        if kind == 6 {
            // the bar is moved from outside the adaptor (reused bar, manual correction): later transfers count
            // on top of it, and any seek - including one that does not move the stream - re-synchronises it
            match rng.below(3) {
                0 => pb.set_position(rng.range(0, 300)),
                1 => pb.reset(),
                _ => pb.inc(rng.range(1, 9)),
            }
            log.push("bar moved from outside".into());
            continue;
        }
        let (sa, sb, expect): (String, String, Option<u64>) = match kind {
            0 => {
                let (ra, rb) = (bare.seek(SeekFrom::Start(off.max(0) as u64)), wrapped.seek(SeekFrom::Start(off.max(0) as u64)));
                let e = rb.as_ref().ok().copied();
                (res_sig(&ra), res_sig(&rb), e.or(Some(before)))
            }
            1 => {
                let (ra, rb) = (bare.seek(SeekFrom::End(-off)), wrapped.seek(SeekFrom::End(-off)));
                let e = rb.as_ref().ok().copied();
                (res_sig(&ra), res_sig(&rb), e.or(Some(before)))
            }
            2 => {
                // (a quarter of the relative seeks do not move the stream at all)
                let off = if rng.chance(1, 4) { 0 } else { off };
                let (ra, rb) = (bare.seek(SeekFrom::Current(off)), wrapped.seek(SeekFrom::Current(off)));
                let e = rb.as_ref().ok().copied();
                (res_sig(&ra), res_sig(&rb), e.or(Some(before)))
            }
            3 => {
                let (ra, rb) = (bare.rewind(), wrapped.rewind());
                (res_sig(&ra), res_sig(&rb), Some(0))
            }
            4 => {
                // (stream_position() is passed through on purpose: it is a query, not a seek, and leaves the bar alone)
                let (ra, rb) = (bare.stream_position(), wrapped.stream_position());
                (res_sig(&ra), res_sig(&rb), Some(before))
            }
            _ => {
                let (mut a, mut b) = (vec![0u8; 9], vec![0u8; 9]);
                let (ra, rb) = (bare.read(&mut a), wrapped.read(&mut b));
                let n = rb.as_ref().ok().copied().unwrap_or(0) as u64;
                (format!("{}{a:?}", res_sig(&ra)), format!("{}{b:?}", res_sig(&rb)), Some(before + n))
            }
        };
        calls += 1;
        log.push(format!("kind {kind} off {off} -> {sb}"));
        if sa != sb {
            return (viol("result-differs-from-bare-source", "Seek", format!("call {calls}: wrapped {sb}, bare {sa}"), w(&log), replay.into()), calls);
        }
        if Some(pb.position()) != expect {
            return (viol("position-not-seek-offset", "Seek", format!("call {calls} (kind {kind}): position {} expected {expect:?}", pb.position()), w(&log), replay.into()), calls);
        }
    }
    (Verdict::Held, calls)
}

fn fin_of(rng: &mut Rng) -> (ProgressFinish, &'static str) {
    match rng.below(5) {
        0 => (ProgressFinish::AndLeave, "AndLeave"),
        1 => (ProgressFinish::WithMessage("done".into()), "WithMessage"),
        2 => (ProgressFinish::AndClear, "AndClear"),
        3 => (ProgressFinish::Abandon, "Abandon"),
        _ => (ProgressFinish::AbandonWithMessage("left".into()), "AbandonWithMessage"),
    }
}

fn case_iter(rng: &mut Rng, replay: &str) -> (Verdict, u64) {
    let n = rng.range(0, 40);
    let items: Vec<u64> = (0..n).map(|i| i * 3 + 1).collect();
    let (fin, fin_name) = fin_of(rng);
    let declared = if rng.chance(1, 4) { n + rng.range(0, 5) } else { n };
    let pb = bar(Some(declared), fin);
    let mut bare = items.clone().into_iter();
    let mut wrapped = items.clone().into_iter().progress_with(pb.clone());
    let mut calls = 0u64;
    let mut yielded = 0u64;
    // one pass in four hands the rest of the items to internal iteration after k external steps (for_each, count,
    // fold consume the adaptor by value - an adaptor that overrides fold() must still finish the bar while the
    // caller keeps a handle; round 12)
    let internal: Option<(u64, u64)> = rng.chance(1, 4).then(|| (rng.range(0, n), rng.below(3)));
    let w = J::obj().with("adaptor", "Iterator").with("items", n).with("declared_len", declared).with("on_finish", fin_name).with(
        "internal_iteration",
        internal.map(|(k, how)| format!("{} after {k} items", ["for_each", "count", "fold"][how as usize])),
    );
    loop {
        if internal.map_or(false, |(k, _)| yielded == k) {
            break;
        }
        calls += 1;
        if wrapped.len() != bare.len() {
            return (viol("result-differs-from-bare-source", "Iterator", format!("len() {} vs {}", wrapped.len(), bare.len()), w, replay.into()), calls);
        }
        let (lo, hi) = wrapped.size_hint();
        if lo > bare.len() || hi.map_or(false, |h| h < bare.len()) {
            return (viol("size-hint-invalid", "Iterator", format!("size_hint ({lo},{hi:?}) with {} items left", bare.len()), w, replay.into()), calls);
        }
        let back = rng.chance(1, 3);
        let (a, b) = if back { (bare.next_back(), wrapped.next_back()) } else { (bare.next(), wrapped.next()) };
        if a != b {
            return (viol("result-differs-from-bare-source", "Iterator", format!("item {b:?} vs bare {a:?}"), w, replay.into()), calls);
        }
        if b.is_some() {
            yielded += 1;
            if pb.position() != yielded {
                return (viol("position-not-items-yielded", "Iterator", format!("{yielded} items yielded, position {}", pb.position()), w, replay.into()), calls);
            }
            if pb.is_finished() {
                return (viol("finished-before-exhaustion", "Iterator", format!("bar finished after {yielded} of {n} items"), w, replay.into()), calls);
            }
        } else {
            break;
        }
    }
    if let Some((_, how)) = internal {
        let rest: Vec<u64> = bare.by_ref().collect();
        let got: Vec<u64> = match how {
            0 => {
                let mut v = Vec::new();
                wrapped.for_each(|x| v.push(x));
                v
            }
            1 => {
                let c = wrapped.count();
                if c == rest.len() { rest.clone() } else { vec![u64::MAX; c] }
            }
            _ => wrapped.fold(Vec::new(), |mut v, x| {
                v.push(x);
                v
            }),
        };
        calls += rest.len() as u64 + 1;
        if got != rest {
            return (viol("result-differs-from-bare-source", "Iterator", format!("internal iteration yielded {got:?}, the bare source {rest:?}"), w, replay.into()), calls);
        }
        yielded += rest.len() as u64;
        if pb.position() != yielded && !pb.is_finished() {
            return (viol("position-not-items-yielded", "Iterator", format!("{yielded} items yielded (the last {} by internal iteration), position {}", rest.len(), pb.position()), w, replay.into()), calls);
        }
    }
    // exhausted: finished according to the finish behaviour
    if !pb.is_finished() {
        return (viol("not-finished-after-exhaustion", "Iterator", "iterator exhausted but the bar is not finished".into(), w, replay.into()), calls);
    }
    let want_pos = match fin_name {
        "AndLeave" | "WithMessage" | "AndClear" => declared,
        _ => yielded,
    };
    let want_msg = match fin_name {
        "WithMessage" => "done",
        "AbandonWithMessage" => "left",
        _ => "",
    };
    if pb.position() != want_pos || pb.message() != want_msg {
        return (viol("finish-behaviour-not-applied", "Iterator", format!("after exhaustion with {fin_name}: position {} (expected {want_pos}), message {:?} (expected {want_msg:?})", pb.position(), pb.message()), w, replay.into()), calls);
    }
    // the same bar, reset and wrapped around a second pass (a progress bar reused per file / per epoch):
    // the pass counts from zero and is finished by the same behaviour once more
    if rng.chance(1, 4) {
        // a second iterator over the same bar WITHOUT a reset (two sources chained onto one bar): the bar is
        // finished already, the items still count
        let base = pb.position();
        let m = rng.range(1, 10);
        let mut got = 0u64;
        for _ in (0..m).progress_with(pb.clone()) {
            got += 1;
            calls += 1;
            if pb.position() != base.wrapping_add(got) {
                return (
                    viol("position-not-items-yielded", "Iterator-on-finished-bar", format!("second iterator over the already finished bar: {got} items yielded, position moved from {base} to {}", pb.position()), w, replay.into()),
                    calls,
                );
            }
        }
    } else if rng.chance(1, 2) {
        pb.reset();
        pb.set_message("");
        let m = rng.range(0, 10);
        let mut second = (0..m).progress_with(pb.clone());
        let mut got = 0u64;
        while second.next().is_some() {
            got += 1;
            calls += 1;
            if pb.position() != got {
                return (viol("position-not-items-yielded", "Iterator-second-pass", format!("second pass after reset(): {got} items yielded, position {}", pb.position()), w, replay.into()), calls);
            }
        }
        let want_pos = match fin_name {
            "AndLeave" | "WithMessage" | "AndClear" => declared,
            _ => got,
        };
        if !pb.is_finished() || pb.position() != want_pos || pb.message() != want_msg {
            return (
                viol(
                    "finish-behaviour-not-applied",
                    "Iterator-second-pass",
                    format!("second pass over the reset bar ({m} items) with {fin_name}: finished {}, position {} (expected {want_pos}), message {:?} (expected {want_msg:?})", pb.is_finished(), pb.position(), pb.message()),
                    w,
                    replay.into(),
                ),
                calls,
            );
        }
    }
    (Verdict::Held, calls)
}

// ------------------------------------------------------------------------------------------------
// async adaptors, driven by a hand-written poll loop with a no-op waker (no runtime)
// ------------------------------------------------------------------------------------------------

#[derive(Clone, Debug)]
struct AScript {
    inner: Script,
    pending_every: u64,
    polls: u64,
    seek_to: Option<u64>,
    data_len: u64,
    /// flush and shutdown are different operations with different outcomes: counted per instance
    flushes: std::sync::Arc<std::sync::atomic::AtomicU64>,
    shutdowns: std::sync::Arc<std::sync::atomic::AtomicU64>,
    flush_err: bool,
    shutdown_err: bool,
}

impl AScript {
    /// an identical sink with counters of its own (a plain clone would share them)
    fn twin(&self) -> Self {
        let mut t = self.clone();
        t.flushes = Default::default();
        t.shutdowns = Default::default();
        t
    }
    fn gen(rng: &mut Rng) -> Self {
        Self {
            inner: Script::gen(rng),
            pending_every: rng.range(2, 5),
            polls: 0,
            seek_to: None,
            data_len: 100,
            flushes: Default::default(),
            shutdowns: Default::default(),
            flush_err: rng.chance(1, 4),
            shutdown_err: rng.chance(1, 3),
        }
    }
    fn pending(&mut self) -> bool {
        self.polls += 1;
        self.polls % self.pending_every == 0
    }
}

impl AsyncRead for AScript {
    fn poll_read(mut self: Pin<&mut Self>, _cx: &mut Context<'_>, buf: &mut ReadBuf<'_>) -> Poll<io::Result<()>> {
        if self.pending() {
            return Poll::Pending;
        }
        let mut tmp = vec![0u8; buf.remaining()];
        match self.inner.read(&mut tmp) {
            Ok(n) => {
                buf.put_slice(&tmp[..n]);
                Poll::Ready(Ok(()))
            }
            Err(e) => Poll::Ready(Err(e)),
        }
    }
}

impl AsyncBufRead for AScript {
    fn poll_fill_buf(self: Pin<&mut Self>, _cx: &mut Context<'_>) -> Poll<io::Result<&[u8]>> {
        let this = self.get_mut();
        if this.pending() {
            return Poll::Pending;
        }
        Poll::Ready(this.inner.fill_buf())
    }
    fn consume(mut self: Pin<&mut Self>, amt: usize) {
        self.inner.consume(amt)
    }
}

impl AsyncWrite for AScript {
    fn poll_write(mut self: Pin<&mut Self>, _cx: &mut Context<'_>, buf: &[u8]) -> Poll<io::Result<usize>> {
        if self.pending() {
            return Poll::Pending;
        }
        Poll::Ready(self.inner.write(buf))
    }
    fn poll_flush(mut self: Pin<&mut Self>, _cx: &mut Context<'_>) -> Poll<io::Result<()>> {
        if self.pending() {
            return Poll::Pending;
        }
        self.flushes.fetch_add(1, std::sync::atomic::Ordering::SeqCst);
        Poll::Ready(if self.flush_err { Err(io::Error::new(io::ErrorKind::Other, "flush failed")) } else { Ok(()) })
    }
    fn poll_shutdown(mut self: Pin<&mut Self>, _cx: &mut Context<'_>) -> Poll<io::Result<()>> {
        if self.pending() {
            return Poll::Pending;
        }
        self.shutdowns.fetch_add(1, std::sync::atomic::Ordering::SeqCst);
        Poll::Ready(if self.shutdown_err { Err(io::Error::new(io::ErrorKind::BrokenPipe, "shutdown failed")) } else { Ok(()) })
    }
}

impl AsyncSeek for AScript {
    fn start_seek(mut self: Pin<&mut Self>, position: SeekFrom) -> io::Result<()> {
        let cur = self.inner.pos as i64;
        let target = match position {
            SeekFrom::Start(p) => p as i64,
            SeekFrom::End(o) => self.data_len as i64 + o,
            SeekFrom::Current(o) => cur + o,
        };
        if target < 0 {
            return Err(io::Error::new(io::ErrorKind::InvalidInput, "negative seek"));
        }
        self.seek_to = Some(target as u64);
        Ok(())
    }
    fn poll_complete(mut self: Pin<&mut Self>, _cx: &mut Context<'_>) -> Poll<io::Result<u64>> {
        if self.pending() {
            return Poll::Pending;
        }
        if let Some(t) = self.seek_to.take() {
            self.inner.pos = t;
        }
        Poll::Ready(Ok(self.inner.pos))
    }
}

impl Stream for AScript {
    type Item = u64;
    fn poll_next(mut self: Pin<&mut Self>, _cx: &mut Context<'_>) -> Poll<Option<u64>> {
        if self.pending() {
            return Poll::Pending;
        }
        match self.inner.step() {
            Step::Eof | Step::Fail => Poll::Ready(None),
            Step::Data(n) => Poll::Ready(Some(n as u64)),
            Step::Interrupted => Poll::Ready(Some(u64::MAX)),
        }
    }
}

fn poll_sig<T: std::fmt::Debug>(p: &Poll<io::Result<T>>) -> String {
    match p {
        Poll::Pending => "Pending".into(),
        Poll::Ready(r) => res_sig(r),
    }
}

fn case_async(rng: &mut Rng, replay: &str) -> (Verdict, u64) {
    let waker = Waker::noop();
    let mut cx = Context::from_waker(waker);
    let script = AScript::gen(rng);
    let which = rng.below(5);
    let name = ["AsyncRead", "AsyncBufRead", "AsyncWrite", "AsyncSeek", "Stream"][which as usize];
    let (fin, fin_name) = fin_of(rng);
    let pb = bar(Some(300), fin);
    let mut bare = script.clone();
    let mut calls = 0u64;
    let mut log: Vec<String> = Vec::new();
    let w = |log: &Vec<String>| J::obj().with("adaptor", name).with("script", format!("{:?}", script.inner.steps)).with("pending_every", script.pending_every).with("calls", J::from(log.clone()));
    macro_rules! differs {
        ($sa:expr, $sb:expr) => {
            return (viol("result-differs-from-bare-source", name, format!("call {calls}: wrapped {}, bare {}", $sb, $sa), w(&log), replay.into()), calls)
        };
    }
    match which {
        0 => {
            let mut wrapped = pb.wrap_async_read(script.clone());
            for _ in 0..rng.range(1, 30) {
                let before = pb.position();
                let size = rng.range(0, 40) as usize;
                // the caller's buffer may already hold data (read_exact / read_buf / copy loops poll
                // again with a partially filled ReadBuf)
                let pre = if rng.chance(1, 2) { rng.range(1, 12) as usize } else { 0 };
                let (mut sa, mut sb) = (vec![0u8; size + pre], vec![0u8; size + pre]);
                let (mut ba, mut bb) = (ReadBuf::new(&mut sa), ReadBuf::new(&mut sb));
                ba.put_slice(&vec![0xEE; pre]);
                bb.put_slice(&vec![0xEE; pre]);
                let mut newly = 0u64;
                for _ in 0..rng.range(1, 3) {
                    let had = bb.filled().len();
                    let ra = Pin::new(&mut bare).poll_read(&mut cx, &mut ba);
                    let rb = Pin::new(&mut wrapped).poll_read(&mut cx, &mut bb);
                    calls += 1;
                    let (fa, fb) = (ba.filled().to_vec(), bb.filled().to_vec());
                    log.push(format!("poll_read(cap {}, already {had}) -> {} now {} bytes", size + pre, poll_sig(&rb), fb.len()));
                    if poll_sig(&ra) != poll_sig(&rb) || fa != fb {
                        differs!(format!("{} {fa:?}", poll_sig(&ra)), format!("{} {fb:?}", poll_sig(&rb)));
                    }
                    newly += (fb.len() - had) as u64;
                    let delta = pb.position() - before;
                    if delta != newly {
                        return (viol("position-not-bytes-transferred", name, format!("call {calls}: {newly} bytes were read into a buffer that already held {pre}, position moved by {delta}"), w(&log), replay.into()), calls);
                    }
                }
            }
        }
        1 => {
            let mut wrapped = pb.wrap_async_read(script.clone());
            let mut consumed = 0u64;
            for _ in 0..rng.range(1, 30) {
                let ra = Pin::new(&mut bare).poll_fill_buf(&mut cx).map(|r| r.map(|b| b.to_vec()));
                let rb = Pin::new(&mut wrapped).poll_fill_buf(&mut cx).map(|r| r.map(|b| b.to_vec()));
                calls += 1;
                log.push(format!("poll_fill_buf -> {}", poll_sig(&rb).chars().take(30).collect::<String>()));
                if poll_sig(&ra) != poll_sig(&rb) {
                    differs!(poll_sig(&ra), poll_sig(&rb));
                }
                if let Poll::Ready(Ok(b)) = &rb {
                    if !b.is_empty() && rng.chance(2, 3) {
                        let amt = rng.range(0, b.len() as u64) as usize;
                        Pin::new(&mut bare).consume(amt);
                        Pin::new(&mut wrapped).consume(amt);
                        consumed += amt as u64;
                        log.push(format!("consume({amt})"));
                    }
                }
                if pb.position() != consumed {
                    return (viol("position-not-bytes-transferred", name, format!("after call {calls}: {consumed} bytes consumed so far, position is {}", pb.position()), w(&log), replay.into()), calls);
                }
            }
        }
        2 => {
            let inner = script.twin();
            let (wf, ws) = (inner.flushes.clone(), inner.shutdowns.clone());
            let mut wrapped = pb.wrap_async_write(inner);
            for _ in 0..rng.range(1, 30) {
                // now and then the caller flushes, and at the very end it shuts the writer down: both must
                // reach the inner writer as what they are, with their own results
                let ctl = rng.below(12);
                if ctl < 2 {
                    let before = pb.position();
                    let (ra, rb) = if ctl == 0 {
                        (Pin::new(&mut bare).poll_flush(&mut cx), Pin::new(&mut wrapped).poll_flush(&mut cx))
                    } else {
                        (Pin::new(&mut bare).poll_shutdown(&mut cx), Pin::new(&mut wrapped).poll_shutdown(&mut cx))
                    };
                    calls += 1;
                    log.push(format!("{} -> {}", if ctl == 0 { "poll_flush" } else { "poll_shutdown" }, poll_sig(&rb)));
                    if poll_sig(&ra) != poll_sig(&rb) {
                        differs!(poll_sig(&ra), poll_sig(&rb));
                    }
                    use std::sync::atomic::Ordering::SeqCst;
                    if (wf.load(SeqCst), ws.load(SeqCst)) != (bare.flushes.load(SeqCst), bare.shutdowns.load(SeqCst)) {
                        return (
                            viol(
                                "result-differs-from-bare-source",
                                name,
                                format!("call {calls}: the wrapped writer has seen (flushes, shutdowns) = ({}, {}), the bare twin ({}, {})", wf.load(SeqCst), ws.load(SeqCst), bare.flushes.load(SeqCst), bare.shutdowns.load(SeqCst)),
                                w(&log),
                                replay.into(),
                            ),
                            calls,
                        );
                    }
                    if pb.position() != before {
                        return (viol("position-not-bytes-transferred", name, format!("call {calls}: a flush/shutdown moved the position by {}", pb.position() - before), w(&log), replay.into()), calls);
                    }
                    continue;
                }
                let before = pb.position();
                let data: Vec<u8> = (0..rng.range(0, 50)).map(|i| i as u8).collect();
                let ra = Pin::new(&mut bare).poll_write(&mut cx, &data);
                let rb = Pin::new(&mut wrapped).poll_write(&mut cx, &data);
                calls += 1;
                log.push(format!("poll_write({}) -> {}", data.len(), poll_sig(&rb)));
                if poll_sig(&ra) != poll_sig(&rb) {
                    differs!(poll_sig(&ra), poll_sig(&rb));
                }
                let n = match rb {
                    Poll::Ready(Ok(n)) => n as u64,
                    _ => 0,
                };
                if pb.position() - before != n {
                    return (viol("position-not-bytes-transferred", name, format!("call {calls}: {n} bytes written, position moved by {}", pb.position() - before), w(&log), replay.into()), calls);
                }
            }
        }
        3 => {
            let mut wrapped = pb.wrap_async_read(script.clone());
            for _ in 0..rng.range(1, 20) {
                let off = rng.range(0, 120) as i64 - 10;
                let from = match rng.below(3) {
                    0 => SeekFrom::Start(off.max(0) as u64),
                    1 => SeekFrom::End(-off),
                    _ => SeekFrom::Current(off),
                };
                let sa = Pin::new(&mut bare).start_seek(from);
                let sb = Pin::new(&mut wrapped).start_seek(from);
                calls += 1;
                if res_sig(&sa) != res_sig(&sb) {
                    differs!(res_sig(&sa), res_sig(&sb));
                }
                if sb.is_err() {
                    continue;
                }
                loop {
                    let ra = Pin::new(&mut bare).poll_complete(&mut cx);
                    let rb = Pin::new(&mut wrapped).poll_complete(&mut cx);
                    calls += 1;
                    log.push(format!("seek {from:?} -> {}", poll_sig(&rb)));
                    if poll_sig(&ra) != poll_sig(&rb) {
                        differs!(poll_sig(&ra), poll_sig(&rb));
                    }
                    if let Poll::Ready(r) = rb {
                        if let Ok(p) = r {
                            if pb.position() != p {
                                return (viol("position-not-seek-offset", name, format!("seek completed at offset {p}, position is {}", pb.position()), w(&log), replay.into()), calls);
                            }
                        }
                        break;
                    }
                }
            }
        }
        _ => {
            let mut wrapped = pb.wrap_stream(script.clone());
            let mut yielded = 0u64;
            loop {
                let ra = Pin::new(&mut bare).poll_next(&mut cx);
                let rb = Pin::new(&mut wrapped).poll_next(&mut cx);
                calls += 1;
                if ra != rb {
                    differs!(format!("{ra:?}"), format!("{rb:?}"));
                }
                match rb {
                    Poll::Pending => continue,
                    Poll::Ready(Some(_)) => {
                        yielded += 1;
                        if pb.position() != yielded {
                            return (viol("position-not-items-yielded", name, format!("{yielded} items, position {}", pb.position()), w(&log), replay.into()), calls);
                        }
                    }
                    Poll::Ready(None) => {
                        if !pb.is_finished() {
                            return (viol("not-finished-after-exhaustion", name, "stream ended but the bar is not finished".into(), w(&log), replay.into()), calls);
                        }
                        let _ = fin_name;
                        break;
                    }
                }
                if calls > 500 {
                    break;
                }
            }
        }
    }
    (Verdict::Held, calls)
}

// ------------------------------------------------------------------------------------------------
// rayon
// ------------------------------------------------------------------------------------------------

fn case_rayon(rng: &mut Rng, replay: &str) -> (Verdict, u64) {
    let n = match rng.below(4) {
        0 => rng.range(0, 3),
        1 => rng.range(0, 100),
        _ => rng.range(100, 20_000),
    } as usize;
    let threads = rng.range(1, 16) as usize;
    let pipeline = rng.below(9);
    let name = ["for_each", "map-collect", "zip", "enumerate", "rev", "chunks", "with_min_len", "with_max_len", "filter-unindexed"][pipeline as usize];
    let (fin, fin_name) = fin_of(rng);
    let pb = bar(Some(n as u64), fin);
    let items: Vec<u64> = (0..n as u64).collect();
    let pool = match rayon::ThreadPoolBuilder::new().num_threads(threads).build() {
        Ok(p) => p,
        Err(e) => return (Verdict::Inconclusive(format!("cannot build rayon pool: {e}")), 0),
    };
    let w = J::obj().with("adaptor", "rayon").with("pipeline", name).with("items", n).with("threads", threads).with("on_finish", fin_name);
    let finished_early = std::sync::atomic::AtomicBool::new(false);
    let pbc = pb.clone();
    let seen = std::sync::atomic::AtomicU64::new(0);
    let observe = |_: &u64| {
        // an item is being processed: the bar must not be finished yet
        let k = seen.fetch_add(1, std::sync::atomic::Ordering::SeqCst);
        if pbc.is_finished() && (k as usize) < n.saturating_sub(1) {
            finished_early.store(true, std::sync::atomic::Ordering::SeqCst);
        }
    };
    let min = rng.range(1, 64) as usize;
    let (got, want): (Vec<u64>, Vec<u64>) = pool.install(|| match pipeline {
        0 => {
            let sum = std::sync::atomic::AtomicU64::new(0);
            items.par_iter().progress_with(pb.clone()).for_each(|x| {
                observe(x);
                sum.fetch_add(*x, std::sync::atomic::Ordering::Relaxed);
            });
            (vec![sum.into_inner()], vec![items.iter().sum()])
        }
        1 => (items.par_iter().progress_with(pb.clone()).map(|x| { observe(x); x * 2 }).collect(), items.iter().map(|x| x * 2).collect()),
        2 => (
            items.par_iter().progress_with(pb.clone()).zip(items.par_iter()).map(|(a, b)| { observe(a); a + b }).collect(),
            items.iter().map(|x| x * 2).collect(),
        ),
        3 => (
            items.par_iter().progress_with(pb.clone()).enumerate().map(|(i, x)| { observe(x); i as u64 + x }).collect(),
            items.iter().enumerate().map(|(i, x)| i as u64 + x).collect(),
        ),
        4 => (items.par_iter().progress_with(pb.clone()).rev().map(|x| { observe(x); *x }).collect(), items.iter().rev().copied().collect()),
        5 => (
            items.par_iter().progress_with(pb.clone()).chunks(7).map(|c| c.into_iter().map(|x| { observe(x); *x }).sum::<u64>()).collect(),
            items.chunks(7).map(|c| c.iter().sum()).collect(),
        ),
        6 => (items.par_iter().progress_with(pb.clone()).with_min_len(min).map(|x| { observe(x); *x }).collect(), items.clone()),
        7 => (items.par_iter().progress_with(pb.clone()).with_max_len(min).map(|x| { observe(x); *x }).collect(), items.clone()),
        _ => (
            items.par_iter().filter(|x| *x % 3 != 0).progress_with(pb.clone()).map(|x| { observe(x); *x }).collect(),
            items.iter().filter(|x| *x % 3 != 0).copied().collect(),
        ),
    });
    if got != want {
        return (viol("result-differs-from-bare-source", "rayon", format!("{name} over {n} items on {threads} threads: results differ (lengths {} vs {})", got.len(), want.len()), w, replay.into()), 1);
    }
    let transferred = if pipeline == 8 { want.len() as u64 } else { n as u64 };
    if finished_early.load(std::sync::atomic::Ordering::SeqCst) {
        return (viol("finished-before-exhaustion", "rayon", format!("{name}: the bar was finished while items were still being processed ({n} items, {threads} threads)"), w, replay.into()), 1);
    }
    // if the pipeline finished the bar, the position is governed by the finish behaviour; else by the count
    let pos = pb.position();
    let ok = if pb.is_finished() {
        match fin_name {
            "AndLeave" | "WithMessage" | "AndClear" => pos == n as u64,
            _ => pos == transferred,
        }
    } else {
        pos == transferred
    };
    if !ok {
        return (viol("position-not-items-yielded", "rayon", format!("{name}: {transferred} items went through, position is {pos} (finished: {})", pb.is_finished()), w, replay.into()), 1);
    }
    (Verdict::Held, 1)
}


/// Short-circuiting consumers: an upstream `map` stage counts every item that is pulled through the
/// adaptor; whatever the consumer does with it afterwards, the bar must have advanced by exactly that
/// count once the pipeline has returned (and the result must be the bare pipeline's result).
fn case_rayon_short(rng: &mut Rng, replay: &str) -> (Verdict, u64) {
    use std::sync::atomic::{AtomicU64, Ordering::SeqCst};
    let n = match rng.below(4) {
        0 => rng.range(1, 4),
        1 => rng.range(1, 100),
        _ => rng.range(100, 20_000),
    } as usize;
    let threads = rng.range(1, 16) as usize;
    let consumer = rng.below(10);
    let name = ["find_any", "find_first", "any", "all", "position_any", "try_for_each", "while_some", "take_any", "find_last", "try_reduce"][consumer as usize];
    let pb = bar(if rng.chance(1, 2) { Some(n as u64) } else { None }, ProgressFinish::AndLeave);
    let items: Vec<u64> = (0..n as u64).collect();
    // the element that trips the short circuit: anywhere, including first, last and "none"
    let target = match rng.below(5) {
        0 => 0,
        1 => n as u64 - 1,
        2 => n as u64 + 7,
        _ => rng.range(0, n as u64 - 1),
    };
    let indexed = rng.chance(1, 2);
    let pool = match rayon::ThreadPoolBuilder::new().num_threads(threads).build() {
        Ok(p) => p,
        Err(e) => return (Verdict::Inconclusive(format!("cannot build rayon pool: {e}")), 0),
    };
    let w = J::obj().with("adaptor", "rayon").with("consumer", name).with("items", n).with("threads", threads).with("target", target).with("indexed_source", indexed);
    let up = AtomicU64::new(0);
    let count = |x: &u64| {
        up.fetch_add(1, SeqCst);
        *x
    };
    let k = rng.range(1, n as u64) as usize;
    // (result of the adaptor pipeline, result of the bare pipeline), rendered for comparison
    let (got, want): (String, String) = pool.install(|| {
        macro_rules! both {
            ($src:expr, $bare:expr, |$it:ident| $body:expr) => {{
                let a = {
                    let $it = $src;
                    format!("{:?}", $body)
                };
                let b = {
                    let $it = $bare;
                    format!("{:?}", $body)
                };
                (a, b)
            }};
        }
        if indexed {
            match consumer {
                0 => both!(items.par_iter().map(count).progress_with(pb.clone()), items.par_iter().map(|x| *x), |it| it.find_any(|x| *x == target)),
                1 => both!(items.par_iter().map(count).progress_with(pb.clone()), items.par_iter().map(|x| *x), |it| it.find_first(|x| *x >= target)),
                2 => both!(items.par_iter().map(count).progress_with(pb.clone()), items.par_iter().map(|x| *x), |it| it.any(|x| x == target)),
                3 => both!(items.par_iter().map(count).progress_with(pb.clone()), items.par_iter().map(|x| *x), |it| it.all(|x| x != target)),
                4 => both!(items.par_iter().map(count).progress_with(pb.clone()), items.par_iter().map(|x| *x), |it| it.position_any(|x| x == target)),
                5 => both!(items.par_iter().map(count).progress_with(pb.clone()), items.par_iter().map(|x| *x), |it| it.try_for_each(|x| if x == target { Err(x) } else { Ok(()) })),
                6 => both!(items.par_iter().map(count).progress_with(pb.clone()), items.par_iter().map(|x| *x), |it| it.map(|x| if x == target { None } else { Some(x) }).while_some().count() <= n),
                7 => both!(items.par_iter().map(count).progress_with(pb.clone()), items.par_iter().map(|x| *x), |it| it.take_any(k).count()),
                8 => both!(items.par_iter().map(count).progress_with(pb.clone()), items.par_iter().map(|x| *x), |it| it.find_last(|x| *x <= target)),
                _ => both!(items.par_iter().map(count).progress_with(pb.clone()), items.par_iter().map(|x| *x), |it| it.map(|x| if x == target { None } else { Some(x) }).try_reduce(|| 0, |a, b| Some(a.max(b)))),
            }
        } else {
            match consumer {
                0 => both!(items.par_iter().filter(|x| **x % 5 != 1).map(count).progress_with(pb.clone()), items.par_iter().filter(|x| **x % 5 != 1).map(|x| *x), |it| it.find_any(|x| *x == target)),
                1 | 4 => both!(items.par_iter().filter(|x| **x % 5 != 1).map(count).progress_with(pb.clone()), items.par_iter().filter(|x| **x % 5 != 1).map(|x| *x), |it| it.find_first(|x| *x >= target)),
                2 => both!(items.par_iter().filter(|x| **x % 5 != 1).map(count).progress_with(pb.clone()), items.par_iter().filter(|x| **x % 5 != 1).map(|x| *x), |it| it.any(|x| x == target)),
                3 => both!(items.par_iter().filter(|x| **x % 5 != 1).map(count).progress_with(pb.clone()), items.par_iter().filter(|x| **x % 5 != 1).map(|x| *x), |it| it.all(|x| x != target)),
                5 => both!(items.par_iter().filter(|x| **x % 5 != 1).map(count).progress_with(pb.clone()), items.par_iter().filter(|x| **x % 5 != 1).map(|x| *x), |it| it.try_for_each(|x| if x == target { Err(x) } else { Ok(()) })),
                6 => both!(items.par_iter().filter(|x| **x % 5 != 1).map(count).progress_with(pb.clone()), items.par_iter().filter(|x| **x % 5 != 1).map(|x| *x), |it| it.map(|x| if x == target { None } else { Some(x) }).while_some().count() <= n),
                7 => both!(items.par_iter().filter(|x| **x % 5 != 1).map(count).progress_with(pb.clone()), items.par_iter().filter(|x| **x % 5 != 1).map(|x| *x), |it| it.take_any(k).count().min(k)),
                8 => both!(items.par_iter().filter(|x| **x % 5 != 1).map(count).progress_with(pb.clone()), items.par_iter().filter(|x| **x % 5 != 1).map(|x| *x), |it| it.find_last(|x| *x <= target)),
                _ => both!(items.par_iter().filter(|x| **x % 5 != 1).map(count).progress_with(pb.clone()), items.par_iter().filter(|x| **x % 5 != 1).map(|x| *x), |it| it.map(|x| if x == target { None } else { Some(x) }).try_reduce(|| 0, |a, b| Some(a.max(b)))),
            }
        }
    });
    if got != want {
        return (viol("result-differs-from-bare-source", "rayon-short-circuit", format!("{name} over {n} items on {threads} threads: {got} vs {want} on the bare iterator"), w, replay.into()), 1);
    }
    let through = up.load(SeqCst);
    let pos = pb.position();
    if pos != through {
        return (
            viol("position-not-items-yielded", "rayon-short-circuit", format!("{name} (target {target}, {n} items, {threads} threads, indexed source: {indexed}): {through} items were pulled through the adaptor, position is {pos}"), w, replay.into()),
            1,
        );
    }
    (Verdict::Held, 1)
}

fn run_case(seed: u64, idx: u64) -> CaseOut {
    let mut rng = Rng::derive(seed, 17, idx);
    let replay = format!("{seed}:{idx}");
    let family = idx % 8;
    let name = ["Read", "BufRead", "Write", "Seek", "Iterator", "async", "async", "rayon"][family as usize];
    let r = catch_unwind(AssertUnwindSafe(|| match family {
        0 => case_read(&mut rng, &replay),
        1 => case_bufread(&mut rng, &replay),
        2 => case_write(&mut rng, &replay),
        3 => case_seek(&mut rng, &replay),
        4 => case_iter(&mut rng, &replay),
        5 | 6 => case_async(&mut rng, &replay),
        _ if (idx / 8) % 2 == 0 => case_rayon(&mut rng, &replay),
        _ => case_rayon_short(&mut rng, &replay),
    }));
    let mut co = CaseOut::held(fnv1a(format!("{seed}:{idx}").as_bytes()), true);
    match r {
        Ok((v, calls)) => {
            co.verdict = v;
            co.count("adaptor_calls_compared_with_twin", calls);
            co.nontrivial = calls >= 1;
        }
        Err(p) => {
            co.verdict = viol("panic", name, format!("panicked: {}", vh::world::panic_message(&p)), J::from(name), replay);
        }
    }
    co.see("adaptor_families", family);
    if idx < 8 {
        co.sample = Some(J::obj().with("family", name).with("index", idx));
    }
    co
}

// ------------------------------------------------------------------------------------------------
// C13 with the cargo feature `improved_unicode` (this binary builds indicatif with it): progress characters
// are grapheme clusters, possibly of several code points; a cell is as wide as its cluster measures.
// ------------------------------------------------------------------------------------------------

fn c13_iu_case(seed: u64, idx: u64) -> CaseOut {
    use indicatif::{ProgressDrawTarget, ProgressStyle};
    use unicode_width::UnicodeWidthStr;
    let mut rng = Rng::derive(seed, 1313, idx);
    let replay = format!("{seed}:{idx}");
    // (clusters of one configuration have the same width, as the builder demands)
    let sets: [&[&str]; 8] = [
        // clusters that only EXTENDED grapheme segmentation keeps together: base + spacing vowel sign, Thai SARA AM
        &["\u{915}\u{93E}", "\u{915}\u{93F}", "\u{915}\u{940}"],
        &["\u{E01}\u{E33}", "\u{E02}\u{E33}"],
        &["\u{2764}\u{FE0F}", "\u{2B50}\u{FE0F}", "\u{2601}\u{FE0F}"], // emoji + variation selector 16
        &["\u{1F44D}\u{1F3FD}", "\u{1F44E}\u{1F3FD}"],                 // emoji + skin tone modifier
        &["e\u{301}", "a\u{300}", "-"],                                 // base + combining mark
        &["\u{4E16}", "\u{754C}"],                                      // plain double-width
        &["#", ">", "-"],
        &["\u{1F1E9}\u{1F1EA}", "\u{1F1EB}\u{1F1F7}"],               // regional-indicator pairs (flags)
    ];
    let set = sets[rng.usize(sets.len())];
    let cw = UnicodeWidthStr::width(set[0]);
    let chars: String = set.concat();
    let wide = rng.chance(1, 2);
    let n = rng.range(0, 40) as usize;
    let term_w = rng.range(4, 80) as u16;
    let len = rng.range(1, 500);
    let pos = match rng.below(4) {
        0 => 0,
        1 => len,
        _ => rng.range(0, len + 5),
    };
    let spec = if wide { "{wide_bar}|".to_string() } else { format!("{{bar:{n}}}|") };
    let mut co = CaseOut::held(fnv1a(format!("{chars}{spec}{term_w}{pos}/{len}").as_bytes()), true);
    let w = J::obj().with("progress_chars", chars.clone()).with("cluster_columns", cw).with("template", spec.clone()).with("terminal_width", term_w).with("pos", pos).with("len", len);
    let feats = vec!["improved_unicode".to_string(), format!("cluster-width-{cw}"), if set[0].chars().count() > 1 { "multi-codepoint-cluster".into() } else { "single-codepoint".to_string() }];
    let spy = vh::spy::SpyTerm::new(term_w, 50, false);
    spy.enable_log();
    spy.state().snap_on_flush = false;
    let r = catch_unwind(AssertUnwindSafe(|| {
        let style = ProgressStyle::with_template(&spec).unwrap().progress_chars(&chars);
        let pb = ProgressBar::with_draw_target(Some(len), ProgressDrawTarget::term_like(spy.boxed())).with_style(style);
        pb.set_position(pos);
        pb.force_draw();
        let lines = vh::rend::last_frame_lines(&spy);
        pb.abandon();
        lines.first().cloned().unwrap_or_default()
    }));
    let line = match r {
        Ok(l) => l,
        Err(p) => {
            co.verdict = viol("panic", "improved_unicode", format!("{spec} with {chars:?} panicked: {}", vh::world::panic_message(&p)), w, replay);
            return co;
        }
    };
    // count the cells: split the text in front of the '|' into the configured clusters
    let bar = line.split('|').next().unwrap_or("").trim_end_matches(' ');
    let mut rest = bar;
    let mut cells = 0usize;
    'outer: while !rest.is_empty() {
        for c in set.iter() {
            if let Some(r) = rest.strip_prefix(c) {
                rest = r;
                cells += 1;
                continue 'outer;
            }
        }
        co.verdict = Verdict::Violated(Box::new(Violation {
            rule: "cell-count".into(),
            features: feats,
            detail: format!("{spec} with progress characters {chars:?}: the bar {bar:?} is not a sequence of the configured clusters"),
            witness: w,
            replay,
        }));
        return co;
    }
    let budget = if wide { (term_w as usize).saturating_sub(1) } else { n };
    let want = budget / cw.max(1);
    // ({bar:N} pads with blanks that were trimmed above; a background cluster may itself be "-" or similar, never a blank)
    if cells != want {
        co.verdict = Verdict::Violated(Box::new(Violation {
            rule: "cell-count".into(),
            features: feats,
            detail: format!("{spec} with progress characters {chars:?} ({cw} column(s) per cluster) on a {term_w}-column terminal: {cells} cells drawn, {want} fit into {budget} columns; line {line:?}"),
            witness: w,
            replay,
        }));
    }
    co.count("improved_unicode_bars_measured", 1);
    co
}

fn main() {
    let args: Vec<String> = std::env::args().collect();
    let mut thorough = false;
    let mut seed = 1u64;
    let mut out: Option<String> = None;
    let mut case: Option<String> = None;
    let mut i = 2;
    while i < args.len() {
        match args[i].as_str() {
            "--tier" => {
                thorough = args.get(i + 1).map(|s| s == "thorough").unwrap_or(false);
                i += 1;
            }
            "--seed" => {
                seed = args.get(i + 1).and_then(|s| s.parse().ok()).unwrap_or(1);
                i += 1;
            }
            "--out" => {
                out = args.get(i + 1).cloned();
                i += 1;
            }
            "--case" => {
                case = args.get(i + 1).cloned();
                i += 1;
            }
            _ => {}
        }
        i += 1;
    }
    if std::env::var("VH_VERBOSE_PANIC").is_err() {
        std::panic::set_hook(Box::new(|_| {}));
    }
    let t0 = std::time::Instant::now();
    if args.get(1).map(|s| s.as_str()) == Some("C13") {
        let report: Report = if let Some(c) = &case {
            let mut it = c.split(':');
            let s: u64 = it.next().and_then(|s| s.parse().ok()).unwrap_or(seed);
            let idx: u64 = it.next().and_then(|s| s.parse().ok()).unwrap_or(0);
            let mut r = Report::default();
            r.add(idx, c13_iu_case(s, idx));
            r
        } else {
            run_parallel(if thorough { 1_000_000 } else { 20_000 }, workers(), |i| c13_iu_case(seed, i))
        };
        let mut j = report.to_json("C13", "indicatif built with the cargo feature improved_unicode: {bar:N} / {wide_bar} with progress characters that are grapheme clusters (emoji + VS16, emoji + skin tone, base + combining mark, flags, plain wide and narrow characters); the number of cells drawn must be floor(columns / cluster width); distinct = (characters, template, terminal width, pos/len)", false);
        j.set("wall_s", t0.elapsed().as_secs_f64());
        j.set("seed", seed);
        j.set("tier", if thorough { "thorough" } else { "quick" });
        j.set("profile", "release");
        let text = j.render();
        match out {
            Some(p) => std::fs::write(&p, text).expect("write result"),
            None => println!("{text}"),
        }
        return;
    }
    let report: Report = if let Some(c) = &case {
        let mut it = c.split(':');
        let s: u64 = it.next().and_then(|s| s.parse().ok()).unwrap_or(seed);
        let idx: u64 = it.next().and_then(|s| s.parse().ok()).unwrap_or(0);
        let mut r = Report::default();
        r.add(idx, run_case(s, idx));
        r
    } else {
        let n = if thorough { 3_000_000 } else { 60_000 };
        run_parallel(n, workers(), |i| run_case(seed, i))
    };
    let rule = "families in rotation: Read (read/read_vectored/read_exact/read_to_end on a scripted source with short reads, Interrupted, hard errors, zero-length transfers, EOF), BufRead (fill_buf / partial consume / read_line / read interleaved), Write (write/write_vectored/write_all/flush on a scripted sink), Seek (all three modes, rewind, stream_position on a Cursor that may start in the middle, with the bar occasionally moved from outside), Iterator (next/next_back/len/size_hint, every ProgressFinish, optionally a second pass over the reset bar, or a second iterator over the finished bar without a reset), tokio AsyncRead/AsyncBufRead/AsyncWrite (write, flush and shutdown with distinct scripted outcomes, counted on the inner writer)/AsyncSeek and futures Stream polled by hand with scripted Pending, rayon pipelines (for_each, map-collect, zip, enumerate, rev, chunks, with_min_len, with_max_len, unindexed filter) on pools of 1-16 threads with 0-20000 items, and short-circuiting consumers (find_any/first/last, any, all, position_any, try_for_each, while_some, take_any, try_reduce; indexed and unindexed source; position compared with an upstream counting stage); every call is mirrored on a bare twin; distinct = (seed, index)";
    let mut j = report.to_json("C17", rule, false);
    j.set("wall_s", t0.elapsed().as_secs_f64());
    j.set("seed", seed);
    j.set("tier", if thorough { "thorough" } else { "quick" });
    j.set("profile", if cfg!(debug_assertions) { "debug" } else { "release" });
    let text = j.render();
    match out {
        Some(p) => std::fs::write(&p, text).expect("write result"),
        None => println!("{text}"),
    }
}
