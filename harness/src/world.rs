//! World: an operation alphabet over one terminal, an executor that drives the real indicatif
//! objects, small shadow models, and the screen oracles (exact for a standalone bar, tag based
//! for a MultiProgress).

use crate::json::J;
use crate::spy::{Snap, SnapKind, SpyTerm};
use crate::vscreen::{phys_rows, strip_ansi};
use indicatif::verif_hooks as vh;
use indicatif::{
    MultiProgress, MultiProgressAlignment, ProgressBar, ProgressDrawTarget, ProgressFinish,
    ProgressStyle,
};
use std::panic::{catch_unwind, AssertUnwindSafe};
use std::sync::atomic::{AtomicU64, Ordering};
use std::sync::Arc;

// ------------------------------------------------------------------------------------------
// Alphabet
// ------------------------------------------------------------------------------------------

#[derive(Clone, Debug, PartialEq, Eq, Hash)]
pub enum Part {
    Lit(String),
    Msg,
    Prefix,
    Pos,
    Len,
    NL,
}

pub fn template_string(parts: &[Part]) -> String {
    let mut s = String::new();
    for p in parts {
        match p {
            Part::Lit(l) => {
                for c in l.chars() {
                    match c {
                        '{' => s.push_str("{{"),
                        '}' => s.push_str("}}"),
                        c => s.push(c),
                    }
                }
            }
            Part::Msg => s.push_str("{msg}"),
            Part::Prefix => s.push_str("{prefix}"),
            Part::Pos => s.push_str("{pos}"),
            Part::Len => s.push_str("{len}"),
            Part::NL => s.push('\n'),
        }
    }
    s
}

#[derive(Clone, Debug, PartialEq, Eq, Hash)]
pub enum Fin {
    Leave,
    WithMsg(String),
    Clear,
    Abandon,
    AbandonMsg(String),
}

impl Fin {
    fn to_real(&self) -> ProgressFinish {
        match self {
            Fin::Leave => ProgressFinish::AndLeave,
            Fin::WithMsg(m) => ProgressFinish::WithMessage(m.clone().into()),
            Fin::Clear => ProgressFinish::AndClear,
            Fin::Abandon => ProgressFinish::Abandon,
            Fin::AbandonMsg(m) => ProgressFinish::AbandonWithMessage(m.clone().into()),
        }
    }
}

#[derive(Clone, Debug, PartialEq, Eq, Hash)]
pub enum Loc {
    End,
    Index(usize),
    FromBack(usize),
    Before(usize),
    After(usize),
}

#[derive(Clone, Debug, PartialEq, Eq, Hash)]
pub enum Op {
    New { b: usize, len: Option<u64>, tmpl: Vec<Part>, fin: Fin, loc: Loc, msg: String, prefix: String },
    Tick(usize),
    Inc(usize, u64),
    Dec(usize, u64),
    SetPos(usize, u64),
    SetLen(usize, u64),
    IncLen(usize, u64),
    DecLen(usize, u64),
    UnsetLen(usize),
    Msg(usize, String),
    Prefix(usize, String),
    Style(usize, Vec<Part>),
    TabWidth(usize, usize),
    Println(usize, String),
    MpPrintln(String),
    Suspend(usize, Vec<String>),
    MpSuspend(Vec<String>),
    Reset(usize),
    ResetEta(usize),
    ResetElapsed(usize),
    Finish(usize),
    FinishMsg(usize, String),
    FinishClear(usize),
    Abandon(usize),
    AbandonMsg(usize, String),
    FinishStyle(usize),
    ForceDraw(usize),
    CloneBar(usize),
    DropOne(usize),
    DropBar(usize),
    Remove(usize),
    /// `mp.add(bar.clone())` on a bar that already is a member: the bar moves to the end of the list
    ReAdd(usize),
    MpClear,
    Align(bool),
    DropMp,
    Advance(u64),
}

impl Op {
    pub fn name(&self) -> &'static str {
        match self {
            Op::New { .. } => "new",
            Op::Tick(_) => "tick",
            Op::Inc(..) => "inc",
            Op::Dec(..) => "dec",
            Op::SetPos(..) => "set_position",
            Op::SetLen(..) => "set_length",
            Op::IncLen(..) => "inc_length",
            Op::DecLen(..) => "dec_length",
            Op::UnsetLen(_) => "unset_length",
            Op::Msg(..) => "set_message",
            Op::Prefix(..) => "set_prefix",
            Op::Style(..) => "set_style",
            Op::TabWidth(..) => "set_tab_width",
            Op::Println(..) => "println",
            Op::MpPrintln(_) => "mp_println",
            Op::Suspend(..) => "suspend",
            Op::MpSuspend(_) => "mp_suspend",
            Op::Reset(_) => "reset",
            Op::ResetEta(_) => "reset_eta",
            Op::ResetElapsed(_) => "reset_elapsed",
            Op::Finish(_) => "finish",
            Op::FinishMsg(..) => "finish_with_message",
            Op::FinishClear(_) => "finish_and_clear",
            Op::Abandon(_) => "abandon",
            Op::AbandonMsg(..) => "abandon_with_message",
            Op::FinishStyle(_) => "finish_using_style",
            Op::ForceDraw(_) => "force_draw",
            Op::CloneBar(_) => "clone",
            Op::DropOne(_) => "drop_handle",
            Op::DropBar(_) => "drop",
            Op::Remove(_) => "remove",
            Op::ReAdd(_) => "re-add",
            Op::MpClear => "mp_clear",
            Op::Align(_) => "set_alignment",
            Op::DropMp => "drop_mp",
            Op::Advance(_) => "advance",
        }
    }

    pub fn to_json(&self) -> J {
        J::Str(format!("{self:?}"))
    }
}

#[derive(Clone, Debug, PartialEq, Eq, Hash)]
pub struct WorldCfg {
    pub width: u16,
    pub height: u16,
    /// refresh rate of the top-level target (None = `term_like`, no limiter)
    pub hz: Option<u8>,
    pub multi: bool,
    pub cross_check: bool,
    /// `MultiProgress::set_move_cursor(true)`: frames are overwritten in place instead of cleared first
    /// (only used where the screen oracles are off)
    pub move_cursor: bool,
}

// ------------------------------------------------------------------------------------------
// Models
// ------------------------------------------------------------------------------------------

#[derive(Clone, Copy, Debug, PartialEq, Eq)]
pub enum St {
    InProgress,
    DoneVisible,
    DoneHidden,
}

#[derive(Clone, Debug, PartialEq, Eq)]
pub enum Place {
    Standalone,
    Member,
    Removed,
    Ghost { required: bool, ahead: Vec<usize>, behind: Vec<usize> },
    Gone,
}

#[derive(Clone, Debug)]
pub struct BarM {
    pub id: usize,
    pub pos: u64,
    pub len: Option<u64>,
    pub msg: String,
    pub prefix: String,
    pub tmpl: Vec<Part>,
    pub tab: usize,
    pub st: St,
    pub fin: Fin,
    pub place: Place,
    pub handles: usize,
    /// rendered frame for every state the bar went through (index = sequence number)
    pub snaps: Vec<Vec<String>>,
    /// oldest snapshot the screen may still show (guaranteed render attempts, last shown)
    pub lo: Option<usize>,
    pub shown: Option<usize>,
    /// was the bar's block part of the last flushed frame?
    pub on_screen: bool,
}

fn expand_tabs(s: &str, tab: usize) -> String {
    s.replace('\t', &" ".repeat(tab))
}

impl BarM {
    /// Independent re-statement of what a bar's frame is for the restricted template family.
    pub fn render(&self) -> Vec<String> {
        if self.st == St::DoneHidden {
            return Vec::new();
        }
        let mut lines: Vec<String> = Vec::new();
        let mut cur = String::new();
        let push = |lines: &mut Vec<String>, s: String| {
            for l in s.split('\n') {
                lines.push(l.to_string());
            }
        };
        for p in &self.tmpl {
            match p {
                Part::Lit(l) => cur.push_str(&expand_tabs(l, self.tab)),
                Part::Msg => cur.push_str(&expand_tabs(&self.msg, self.tab)),
                Part::Prefix => cur.push_str(&expand_tabs(&self.prefix, self.tab)),
                Part::Pos => cur.push_str(&self.pos.to_string()),
                Part::Len => cur.push_str(&self.len.unwrap_or(self.pos).to_string()),
                Part::NL => push(&mut lines, std::mem::take(&mut cur)),
            }
        }
        if !cur.is_empty() {
            push(&mut lines, cur);
        }
        lines
    }

    fn snapshot(&mut self) {
        let r = self.render();
        self.snaps.push(r);
    }

    fn cur(&self) -> usize {
        self.snaps.len() - 1
    }

    fn attempt(&mut self) {
        self.lo = Some(self.cur());
    }

    fn apply_finish(&mut self, f: &Fin) {
        self.st = St::DoneVisible;
        match f {
            Fin::Leave => {
                if let Some(l) = self.len {
                    self.pos = l;
                }
            }
            Fin::WithMsg(m) => {
                if let Some(l) = self.len {
                    self.pos = l;
                }
                self.msg = m.clone();
            }
            Fin::Clear => {
                if let Some(l) = self.len {
                    self.pos = l;
                }
                self.st = St::DoneHidden;
            }
            Fin::Abandon => {}
            Fin::AbandonMsg(m) => self.msg = m.clone(),
        }
    }

    pub fn finished(&self) -> bool {
        self.st != St::InProgress
    }
}

fn norm(s: &str) -> String {
    strip_ansi(s).trim_end().to_string()
}

// ------------------------------------------------------------------------------------------
// World
// ------------------------------------------------------------------------------------------

pub struct Bar {
    pub handles: Vec<ProgressBar>,
    pub m: BarM,
}

#[derive(Clone, Debug)]
pub struct Fail {
    pub rule: &'static str,
    pub detail: String,
    pub op_index: usize,
}

#[derive(Clone, Debug, Default)]
pub struct Stats {
    pub ops: u64,
    pub flushes_checked: u64,
    pub frame_shrinks: u64,
    pub text_only_draws: u64,
    pub logs: u64,
    pub truncated_frames: u64,
    /// some line of the case had a double-width character straddling the right margin
    pub wide_char_at_margin: bool,
    pub ghosts: u64,
    pub removes: u64,
    pub skipped_draws: u64,
    pub finish_checks: u64,
    pub max_rows_requested: u64,
    pub suspends: u64,
}

pub struct World {
    pub cfg: WorldCfg,
    pub spy: SpyTerm,
    pub clock: Arc<AtomicU64>,
    pub mp: Option<MultiProgress>,
    pub bars: Vec<Option<Bar>>,
    pub order: Vec<usize>,
    pub logs: Vec<String>,
    pub bottom: bool,
    pub ever_bottom: bool,
    /// a dropped member may linger in the real list until it reaches the head
    pub dropped_members: bool,
    pub stats: Stats,
    pub fail: Option<Fail>,
    pub dead: bool,
    last_frame_rows: usize,
    pending_new: Option<(usize, BarM, std::rc::Rc<std::cell::RefCell<Option<ProgressBar>>>)>,
    pub user_lines_total: usize,
    pub panic_msg: Option<String>,
    /// C04 bookkeeping for finishing / dropping operations
    pub op_obs: Vec<OpObs>,
    /// evaluate the screen oracles (off for fault-injection runs, where draws fail on purpose)
    pub check_screen: bool,
    /// (op index, call name, returned Ok?) for io::Result-returning calls
    pub io_results: std::rc::Rc<std::cell::RefCell<Vec<(u64, &'static str, bool)>>>,
    /// (op index, faults injected while the op ran)
    pub op_faults: Vec<(usize, u64)>,
    pub check_cursor: bool,
}

pub fn install_session(clock: &Arc<AtomicU64>) {
    vh::install(Some(vh::Session::new(Some(clock.clone()), false, None)));
}

impl World {
    pub fn new(cfg: WorldCfg) -> Self {
        let clock = Arc::new(AtomicU64::new(1_000_000_000));
        install_session(&clock);
        let spy = SpyTerm::new(cfg.width, cfg.height, cfg.cross_check);
        let mp = if cfg.multi {
            let target = match cfg.hz {
                Some(hz) => ProgressDrawTarget::term_like_with_hz(spy.boxed(), hz),
                None => ProgressDrawTarget::term_like(spy.boxed()),
            };
            let mp = MultiProgress::with_draw_target(target);
            if cfg.move_cursor {
                mp.set_move_cursor(true);
            }
            Some(mp)
        } else {
            None
        };
        Self {
            cfg,
            spy,
            clock,
            mp,
            bars: Vec::new(),
            order: Vec::new(),
            logs: Vec::new(),
            bottom: false,
            ever_bottom: false,
            dropped_members: false,
            stats: Stats::default(),
            fail: None,
            dead: false,
            last_frame_rows: 0,
            pending_new: None,
            user_lines_total: 0,
            panic_msg: None,
            op_obs: Vec::new(),
            check_screen: true,
            io_results: Default::default(),
            op_faults: Vec::new(),
            check_cursor: true,
        }
    }

    fn bar(&mut self, b: usize) -> Option<&mut Bar> {
        self.bars.get_mut(b).and_then(|x| x.as_mut())
    }

    fn has_handles(&self, b: usize) -> bool {
        self.bars
            .get(b)
            .and_then(|x| x.as_ref())
            .map(|x| !x.handles.is_empty())
            .unwrap_or(false)
    }

    fn any_ghost(&self) -> bool {
        self.bars
            .iter()
            .flatten()
            .any(|b| matches!(b.m.place, Place::Ghost { .. }))
    }

    fn intervene(&mut self) {
        for b in self.bars.iter_mut().flatten() {
            if let Place::Ghost { required, .. } = &mut b.m.place {
                *required = false;
            }
        }
    }

    fn set_fail(&mut self, rule: &'static str, detail: String, op_index: usize) {
        if self.fail.is_none() {
            self.fail = Some(Fail { rule, detail, op_index });
        }
    }

    /// Run a whole history; stops at the first violation or panic.
    pub fn run(&mut self, ops: &[Op]) {
        for (i, op) in ops.iter().enumerate() {
            if self.fail.is_some() || self.dead {
                break;
            }
            self.step(i, op);
            if std::env::var("VH_TRACE").is_ok() {
                eprintln!("op {i} {:?}\n    flushes {} screen {:?}", op, self.spy.flushes(), self.spy.state().screen.all_rows().iter().map(|r| r.trim_end().to_string()).collect::<Vec<_>>());
            }
        }
    }

    pub fn step(&mut self, i: usize, op: &Op) {
        self.stats.ops += 1;
        self.spy.cur_op.store(i as u64 + 1, Ordering::SeqCst);
        let flushes_before = self.spy.flushes();
        let logs_before = self.logs.len();

        // ---- 1. model first, and decide what the real call is -----------------------------
        let mut ctx = FlushCtx::default();
        let calls_before = self.spy.calls();
        let faults_before = self.spy.state().faults_injected;
        let call = self.apply_model(i, op, &mut ctx);

        // ---- 2. the real call ---------------------------------------------------------------
        if let Some(call) = call {
            let res = catch_unwind(AssertUnwindSafe(call));
            if let Err(p) = res {
                let msg = panic_message(&p);
                self.panic_msg = Some(msg.clone());
                self.dead = true;
                self.pending_new = None;
                self.set_fail("panic", format!("{} panicked: {msg}", op.name()), i);
                return;
            }
        }
        if let Some((b, m, slot)) = self.pending_new.take() {
            if let Some(pb) = slot.borrow_mut().take() {
                self.bars[b] = Some(Bar { handles: vec![pb], m });
            }
        }

        // ---- 3. observe -----------------------------------------------------------------------
        let faults = self.spy.state().faults_injected - faults_before;
        if faults > 0 {
            self.op_faults.push((i, faults));
        }
        let snaps = self.spy.take_snaps();
        if !self.check_screen {
            self.user_lines_total += ctx.user_lines;
            // fault-injection runs: the logical state must follow the model after EVERY operation (damage done
            // in the middle of a history may be papered over by a later finish or reset)
            let mut bad = None;
            for b in self.bars.iter().flatten() {
                if let Some(h) = b.handles.first() {
                    let r = catch_unwind(AssertUnwindSafe(|| (h.position(), h.length(), h.is_finished())));
                    match r {
                        Err(p) => {
                            bad = Some(("getter-panics-after-io-error", format!("a getter of B{} panicked after {}: {}", b.m.id, op.name(), panic_message(&p))));
                        }
                        Ok((p, l, f)) => {
                            if p != b.m.pos || l != b.m.len || f != b.m.finished() {
                                bad = Some((
                                    "state-corrupted-by-io-error",
                                    format!(
                                        "after {} (op {i}) B{} has position {p} / length {l:?} / finished {f}; without the failure: {} / {:?} / {}",
                                        op.name(),
                                        b.m.id,
                                        b.m.pos,
                                        b.m.len,
                                        b.m.finished()
                                    ),
                                ));
                            }
                        }
                    }
                }
                if bad.is_some() {
                    break;
                }
            }
            if let Some((rule, d)) = bad {
                self.set_fail(rule, d, i);
            }
            return;
        }
        let flushed = self.spy.flushes() - flushes_before;
        if ctx.finishing || ctx.drop_finished {
            self.op_obs.push(OpObs {
                index: i,
                name: op.name(),
                bar: ctx.acting,
                flushed,
                calls: self.spy.calls() - calls_before,
                finishing: ctx.finishing,
                expect_flush: ctx.finish_expect_flush,
                drop_finished: ctx.drop_finished,
            });
        }
        if flushed == 0 && ctx.acting.is_some() && !ctx.forced {
            self.stats.skipped_draws += 1;
        }
        let user_base = self.user_lines_total;
        let closure_pos = snaps.iter().position(|x| x.kind == SnapKind::ClosureStart);
        for (si, s) in snaps.iter().enumerate() {
            // logs visible at this snapshot: everything before the op, plus what the op itself
            // emitted before the snapshot was taken
            let mut expect_logs: Vec<String> = self.logs[..logs_before].to_vec();
            let own = &self.logs[logs_before..];
            if ctx.suspend {
                let user_so_far = s.user_lines - user_base;
                expect_logs.extend(own.iter().take(user_so_far).cloned());
            } else {
                expect_logs.extend(own.iter().cloned());
            }
            let cleared = if ctx.clear_only {
                true
            } else if ctx.suspend && ctx.clears {
                closure_pos.map_or(false, |cp| si <= cp)
            } else {
                false
            };
            // a flush inside a position update proves that the bar rendered itself just now
            if ctx.maybe_attempt && s.kind == SnapKind::Flush {
                if let Some(bar) = ctx.acting.and_then(|b| self.bar(b)) {
                    bar.m.attempt();
                }
            }
            let r = if self.cfg.multi {
                self.check_multi(s, &expect_logs, &ctx, cleared)
            } else {
                self.check_single(s, &expect_logs, &ctx, cleared)
            };
            if s.kind == SnapKind::Flush {
                self.stats.flushes_checked += 1;
            }
            if let Err((rule, detail)) = r {
                self.set_fail(rule, format!("at {} (op {i}): {detail}", op.name()), i);
                return;
            }
        }
        self.user_lines_total += ctx.user_lines;

        // "Removing ... a bar makes its lines disappear": once remove() has returned, no row of the
        // removed bar may be left on the screen, however the refresh limiter stands.
        if let (Some(b), true) = (ctx.removed, self.cfg.multi) {
            let now = self.spy.snapshot_now();
            let tag = format!("B{b}");
            let still = now.rows.iter().find(|r| {
                r.starts_with(&tag) && !r[tag.len()..].starts_with(|c: char| c.is_ascii_digit())
            });
            if let Some(r) = still {
                self.set_fail(
                    "removed-bar-visible",
                    format!("at remove (op {i}): row {r:?} of the removed bar B{b} is still on the screen after remove() returned: {:?}", now.rows),
                    i,
                );
            }
        }
    }

    // --------------------------------------------------------------------------------------
    // model transition + real call construction
    // --------------------------------------------------------------------------------------

    fn apply_model(
        &mut self,
        _i: usize,
        op: &Op,
        ctx: &mut FlushCtx,
    ) -> Option<Box<dyn FnOnce()>> {
        macro_rules! live {
            ($b:expr) => {{
                if !self.has_handles(*$b) {
                    return None;
                }
                ctx.acting = Some(*$b);
                let bar = self.bar(*$b).unwrap();
                bar
            }};
        }
        match op {
            Op::Advance(ns) => {
                self.clock.fetch_add(*ns, Ordering::SeqCst);
                None
            }
            Op::New { b, len, tmpl, fin, loc, msg, prefix } => {
                if self.bars.get(*b).map(|x| x.is_some()).unwrap_or(false) {
                    return None;
                }
                if !self.cfg.multi && self.bars.iter().flatten().count() > 0 {
                    return None; // one standalone bar per world
                }
                if self.cfg.multi && self.mp.is_none() {
                    return None;
                }
                while self.bars.len() <= *b {
                    self.bars.push(None);
                }
                let mut m = BarM {
                    id: *b,
                    pos: 0,
                    len: *len,
                    msg: msg.clone(),
                    prefix: prefix.clone(),
                    tmpl: tmpl.clone(),
                    tab: 8,
                    st: St::InProgress,
                    fin: fin.clone(),
                    place: if self.cfg.multi { Place::Member } else { Place::Standalone },
                    handles: 1,
                    snaps: Vec::new(),
                    lo: None,
                    shown: None,
                    on_screen: false,
                };
                m.snapshot();
                let style = ProgressStyle::with_template(&template_string(tmpl))
                    .expect("restricted template must parse");
                let target = if self.cfg.multi {
                    ProgressDrawTarget::hidden()
                } else {
                    match self.cfg.hz {
                        Some(hz) => ProgressDrawTarget::term_like_with_hz(self.spy.boxed(), hz),
                        None => ProgressDrawTarget::term_like(self.spy.boxed()),
                    }
                };
                let pb = ProgressBar::with_draw_target(*len, target)
                    .with_style(style)
                    .with_finish(fin.to_real())
                    .with_message(msg.clone())
                    .with_prefix(prefix.clone());
                // normalise the location against the model (see DESIGN: index-based inserts are
                // only meaningful while no finished-and-dropped bar may still sit in the list)
                let n = self.order.len();
                let ghost = self.any_ghost() || self.dropped_members;
                let member = |w: &World, x: usize| {
                    w.bars
                        .get(x)
                        .and_then(|q| q.as_ref())
                        .map(|q| q.m.place == Place::Member && !q.handles.is_empty())
                        .unwrap_or(false)
                };
                let loc = match loc {
                    Loc::End => Loc::End,
                    Loc::Index(k) if !ghost || *k == 0 => Loc::Index(*k),
                    Loc::FromBack(k) if !ghost || *k == 0 => Loc::FromBack(*k),
                    Loc::Before(x) if member(self, *x) => Loc::Before(*x),
                    Loc::After(x) if member(self, *x) => Loc::After(*x),
                    _ => Loc::End,
                };
                if self.cfg.multi {
                    // a ghost that may still be in the real list makes "front" ambiguous only
                    // relative to that ghost, which the order rule leaves unconstrained
                    let at = match &loc {
                        Loc::End => n,
                        Loc::Index(k) => (*k).min(n),
                        Loc::FromBack(k) => n.saturating_sub(*k),
                        Loc::Before(x) => self.order.iter().position(|y| y == x).unwrap(),
                        Loc::After(x) => self.order.iter().position(|y| y == x).unwrap() + 1,
                    };
                    self.order.insert(at, *b);
                }
                let handle_of = |w: &World, x: usize| w.bars[x].as_ref().unwrap().handles[0].clone();
                let real_loc = match &loc {
                    Loc::Before(x) => Some((true, handle_of(self, *x))),
                    Loc::After(x) => Some((false, handle_of(self, *x))),
                    _ => None,
                };
                let mp = self.mp.clone();
                let slot = std::rc::Rc::new(std::cell::RefCell::new(None));
                self.pending_new = Some((*b, m, slot.clone()));
                Some(Box::new(move || {
                    let pb = match mp {
                        Some(mp) => match loc {
                            Loc::End => mp.add(pb),
                            Loc::Index(k) => mp.insert(k, pb),
                            Loc::FromBack(k) => mp.insert_from_back(k, pb),
                            Loc::Before(_) => mp.insert_before(&real_loc.unwrap().1, pb),
                            Loc::After(_) => mp.insert_after(&real_loc.unwrap().1, pb),
                        },
                        None => pb,
                    };
                    *slot.borrow_mut() = Some(pb);
                }))
            }
            Op::Tick(b) => {
                let bar = live!(b);
                bar.m.snapshot();
                bar.m.attempt();
                let h = bar.handles[0].clone();
                Some(Box::new(move || h.tick()))
            }
            Op::Inc(b, d) => {
                let bar = live!(b);
                bar.m.pos = bar.m.pos.wrapping_add(*d);
                bar.m.snapshot();
                let (h, d) = (bar.handles[0].clone(), *d);
                ctx.maybe_attempt = true;
                Some(Box::new(move || h.inc(d)))
            }
            Op::Dec(b, d) => {
                let bar = live!(b);
                bar.m.pos = bar.m.pos.wrapping_sub(*d);
                bar.m.snapshot();
                let (h, d) = (bar.handles[0].clone(), *d);
                ctx.maybe_attempt = true;
                Some(Box::new(move || h.dec(d)))
            }
            Op::SetPos(b, p) => {
                let bar = live!(b);
                bar.m.pos = *p;
                bar.m.snapshot();
                let (h, p) = (bar.handles[0].clone(), *p);
                ctx.maybe_attempt = true;
                Some(Box::new(move || h.set_position(p)))
            }
            Op::SetLen(b, l) => {
                let bar = live!(b);
                bar.m.len = Some(*l);
                bar.m.snapshot();
                bar.m.attempt();
                let (h, l) = (bar.handles[0].clone(), *l);
                Some(Box::new(move || h.set_length(l)))
            }
            Op::IncLen(b, d) => {
                let bar = live!(b);
                bar.m.len = bar.m.len.map(|l| l.saturating_add(*d));
                bar.m.snapshot();
                bar.m.attempt();
                let (h, d) = (bar.handles[0].clone(), *d);
                Some(Box::new(move || h.inc_length(d)))
            }
            Op::DecLen(b, d) => {
                let bar = live!(b);
                bar.m.len = bar.m.len.map(|l| l.saturating_sub(*d));
                bar.m.snapshot();
                bar.m.attempt();
                let (h, d) = (bar.handles[0].clone(), *d);
                Some(Box::new(move || h.dec_length(d)))
            }
            Op::UnsetLen(b) => {
                let bar = live!(b);
                bar.m.len = None;
                bar.m.snapshot();
                bar.m.attempt();
                let h = bar.handles[0].clone();
                Some(Box::new(move || h.unset_length()))
            }
            Op::Msg(b, t) => {
                let bar = live!(b);
                bar.m.msg = t.clone();
                bar.m.snapshot();
                bar.m.attempt();
                let (h, t) = (bar.handles[0].clone(), t.clone());
                Some(Box::new(move || h.set_message(t)))
            }
            Op::Prefix(b, t) => {
                let bar = live!(b);
                bar.m.prefix = t.clone();
                bar.m.snapshot();
                bar.m.attempt();
                let (h, t) = (bar.handles[0].clone(), t.clone());
                Some(Box::new(move || h.set_prefix(t)))
            }
            Op::Style(b, tmpl) => {
                let bar = live!(b);
                bar.m.tmpl = tmpl.clone();
                bar.m.snapshot();
                let h = bar.handles[0].clone();
                let style = ProgressStyle::with_template(&template_string(tmpl)).unwrap();
                Some(Box::new(move || h.set_style(style)))
            }
            Op::TabWidth(b, w) => {
                let bar = live!(b);
                bar.m.tab = *w;
                bar.m.snapshot();
                bar.m.attempt();
                ctx.forced = true;
                let (h, w) = (bar.handles[0].clone(), *w);
                Some(Box::new(move || h.set_tab_width(w)))
            }
            Op::Println(b, t) => {
                let bar = live!(b);
                bar.m.snapshot();
                let visible = !matches!(bar.m.place, Place::Removed);
                if visible {
                    bar.m.attempt();
                }
                let (h, t2) = (bar.handles[0].clone(), t.clone());
                if visible {
                    ctx.forced = true;
                    let lines = println_lines(t);
                    self.stats.logs += lines.len() as u64;
                    self.logs.extend(lines);
                    if self.cfg.multi {
                        self.intervene();
                    }
                }
                Some(Box::new(move || h.println(t2)))
            }
            Op::MpPrintln(t) => {
                let mp = self.mp.clone()?;
                ctx.forced = true;
                let lines = println_lines(t);
                self.stats.logs += lines.len() as u64;
                self.logs.extend(lines);
                self.intervene();
                let t = t.clone();
                let (io, i) = (self.io_results.clone(), _i as u64);
                Some(Box::new(move || {
                    let r = mp.println(t);
                    io.borrow_mut().push((i, "MultiProgress::println", r.is_ok()));
                }))
            }
            Op::Suspend(b, lines) => {
                let bar = live!(b);
                if matches!(bar.m.place, Place::Removed) {
                    return None; // suspending through a detached bar cannot hide the others
                }
                bar.m.snapshot();
                let hidden = false;
                let standalone = matches!(bar.m.place, Place::Standalone);
                if standalone {
                    bar.m.attempt();
                }
                let h = bar.handles[0].clone();
                self.stats.suspends += 1;
                ctx.suspend = true;
                ctx.clears = !hidden;
                ctx.forced = !hidden;
                ctx.user_lines = lines.len();
                self.stats.logs += lines.len() as u64;
                self.logs.extend(lines.iter().cloned());
                if self.cfg.multi {
                    self.intervene();
                }
                let spy = self.spy.clone();
                let lines = lines.clone();
                Some(Box::new(move || {
                    let r = h.suspend(|| {
                        spy.probe(SnapKind::ClosureStart);
                        for l in &lines {
                            spy.user_write_line(l);
                        }
                        17
                    });
                    assert_eq!(r, 17);
                }))
            }
            Op::MpSuspend(lines) => {
                let mp = self.mp.clone()?;
                self.stats.suspends += 1;
                ctx.suspend = true;
                ctx.clears = true;
                ctx.forced = true;
                ctx.user_lines = lines.len();
                self.stats.logs += lines.len() as u64;
                self.logs.extend(lines.iter().cloned());
                self.intervene();
                let spy = self.spy.clone();
                let lines = lines.clone();
                Some(Box::new(move || {
                    mp.suspend(|| {
                        spy.probe(SnapKind::ClosureStart);
                        for l in &lines {
                            spy.user_write_line(l);
                        }
                    });
                }))
            }
            Op::Reset(b) => {
                let bar = live!(b);
                bar.m.pos = 0;
                bar.m.st = St::InProgress;
                bar.m.snapshot();
                bar.m.attempt();
                let h = bar.handles[0].clone();
                Some(Box::new(move || h.reset()))
            }
            Op::ResetEta(b) => {
                let bar = live!(b);
                let h = bar.handles[0].clone();
                Some(Box::new(move || h.reset_eta()))
            }
            Op::ResetElapsed(b) => {
                let bar = live!(b);
                let h = bar.handles[0].clone();
                Some(Box::new(move || h.reset_elapsed()))
            }
            Op::Finish(b)
            | Op::FinishMsg(b, _)
            | Op::FinishClear(b)
            | Op::Abandon(b)
            | Op::AbandonMsg(b, _)
            | Op::FinishStyle(b) => {
                let bar = live!(b);
                let fin = match op {
                    Op::Finish(_) => Fin::Leave,
                    Op::FinishMsg(_, m) => Fin::WithMsg(m.clone()),
                    Op::FinishClear(_) => Fin::Clear,
                    Op::Abandon(_) => Fin::Abandon,
                    Op::AbandonMsg(_, m) => Fin::AbandonMsg(m.clone()),
                    _ => bar.m.fin.clone(),
                };
                bar.m.apply_finish(&fin);
                bar.m.snapshot();
                bar.m.attempt();
                ctx.forced = true;
                ctx.finishing = true;
                ctx.finish_expect_flush = !matches!(bar.m.place, Place::Removed);
                let h = bar.handles[0].clone();
                let op = op.clone();
                Some(Box::new(move || match op {
                    Op::Finish(_) => h.finish(),
                    Op::FinishMsg(_, m) => h.finish_with_message(m),
                    Op::FinishClear(_) => h.finish_and_clear(),
                    Op::Abandon(_) => h.abandon(),
                    Op::AbandonMsg(_, m) => h.abandon_with_message(m),
                    _ => h.finish_using_style(),
                }))
            }
            Op::ForceDraw(b) => {
                let bar = live!(b);
                bar.m.snapshot();
                bar.m.attempt();
                ctx.forced = true;
                let h = bar.handles[0].clone();
                Some(Box::new(move || h.force_draw()))
            }
            Op::CloneBar(b) => {
                let bar = live!(b);
                if bar.handles.len() >= 4 {
                    return None;
                }
                let h = bar.handles[0].clone();
                bar.handles.push(h);
                bar.m.handles += 1;
                None
            }
            Op::DropOne(b) | Op::DropBar(b) => {
                if !self.has_handles(*b) {
                    return None;
                }
                let all = matches!(op, Op::DropBar(_));
                let multi = self.cfg.multi;
                let order = self.order.clone();
                let alive: Vec<usize> = order
                    .iter()
                    .copied()
                    .filter(|x| self.has_handles(*x))
                    .collect();
                let bar = self.bar(*b).unwrap();
                if !all && bar.handles.len() > 1 {
                    let h = bar.handles.pop().unwrap();
                    bar.m.handles -= 1;
                    return Some(Box::new(move || drop(h)));
                }
                // last handle(s): the bar state is dropped
                ctx.acting = Some(*b);
                let was_finished = bar.m.finished();
                let was_on_screen = bar.m.on_screen;
                if !was_finished {
                    let fin = bar.m.fin.clone();
                    bar.m.apply_finish(&fin);
                    bar.m.snapshot();
                    bar.m.attempt();
                    ctx.forced = true;
                    ctx.finishing = true;
                    ctx.finish_expect_flush = !matches!(bar.m.place, Place::Removed);
                } else {
                    ctx.drop_finished = true;
                }
                let handles = std::mem::take(&mut bar.handles);
                bar.m.handles = 0;
                let mut became_ghost = false;
                let mut left_order = false;
                match bar.m.place.clone() {
                    Place::Member => {
                        if bar.m.st == St::DoneVisible {
                            let at = order.iter().position(|x| x == b).unwrap();
                            let ahead = order[..at].iter().copied().filter(|x| alive.contains(x)).collect();
                            let behind = order[at + 1..].iter().copied().filter(|x| alive.contains(x)).collect();
                            bar.m.place = Place::Ghost { required: !was_finished || was_on_screen, ahead, behind };
                            became_ghost = true;
                        } else {
                            bar.m.place = Place::Gone;
                        }
                        left_order = true;
                    }
                    Place::Standalone => {}
                    _ => {
                        bar.m.place = Place::Gone;
                    }
                }
                if became_ghost {
                    self.stats.ghosts += 1;
                }
                if left_order {
                    self.order.retain(|x| x != b);
                    self.dropped_members = true;
                }
                let _ = multi;
                Some(Box::new(move || drop(handles)))
            }
            Op::Remove(b) => {
                let mp = self.mp.clone()?;
                let bar = live!(b);
                if bar.m.place != Place::Member {
                    return None;
                }
                bar.m.place = Place::Removed;
                let h = bar.handles[0].clone();
                self.order.retain(|x| x != b);
                self.stats.removes += 1;
                self.intervene();
                ctx.acting = None;
                ctx.forced = true;
                ctx.removed = Some(*b);
                Some(Box::new(move || mp.remove(&h)))
            }
            Op::ReAdd(b) => {
                let mp = self.mp.clone()?;
                let bar = live!(b);
                if bar.m.place != Place::Member {
                    return None;
                }
                // the bar leaves its old position at once (its old slot is emptied and the list redrawn) and
                // shows up at the end of the list with its next draw
                bar.m.lo = None;
                bar.m.shown = None;
                bar.m.on_screen = false;
                let h = bar.handles[0].clone();
                self.order.retain(|x| x != b);
                self.order.push(*b);
                // every finished-and-dropped bar that may still sit in the real list is now in front of it
                for g in self.bars.iter_mut().flatten() {
                    if let Place::Ghost { ahead, behind, .. } = &mut g.m.place {
                        ahead.retain(|x| x != b);
                        if !behind.contains(b) {
                            behind.push(*b);
                        }
                    }
                }
                // (the emptied slot stays in the real list: index-based inserts are ambiguous from now on)
                self.dropped_members = true;
                self.intervene();
                ctx.acting = None;
                ctx.forced = true;
                ctx.removed = Some(*b);
                Some(Box::new(move || drop(mp.add(h.clone()))))
            }
            Op::MpClear => {
                let mp = self.mp.clone()?;
                ctx.clears = true;
                ctx.forced = true;
                ctx.clear_only = true;
                self.intervene();
                let (io, i) = (self.io_results.clone(), _i as u64);
                Some(Box::new(move || {
                    let r = mp.clear();
                    io.borrow_mut().push((i, "MultiProgress::clear", r.is_ok()));
                }))
            }
            Op::Align(bottom) => {
                let mp = self.mp.clone()?;
                self.bottom = *bottom;
                self.ever_bottom |= *bottom;
                let a = if *bottom {
                    MultiProgressAlignment::Bottom
                } else {
                    MultiProgressAlignment::Top
                };
                Some(Box::new(move || mp.set_alignment(a)))
            }
            Op::DropMp => {
                let mp = self.mp.take()?;
                Some(Box::new(move || drop(mp)))
            }
        }
    }

    // --------------------------------------------------------------------------------------
    // exact oracle: one standalone bar (physical rows)
    // --------------------------------------------------------------------------------------

    fn check_single(
        &mut self,
        s: &Snap,
        logs: &[String],
        _ctx: &FlushCtx,
        cleared: bool,
    ) -> Result<(), (&'static str, String)> {
        let width = self.cfg.width as usize;
        let height = self.cfg.height as usize;
        let bar = self.bars.iter().flatten().next();
        let full: Vec<String> = match bar {
            Some(b) if !cleared => b.m.render(),
            _ => Vec::new(),
        };
        // height overflow: only the leading bar lines that fit are painted
        let mut frame: Vec<String> = Vec::new();
        let mut rows = 0usize;
        let requested: usize = full.iter().map(|l| phys_rows(l, width).len()).sum();
        for l in &full {
            let h = phys_rows(l, width).len();
            if rows + h > height {
                break;
            }
            rows += h;
            frame.push(l.clone());
        }
        let truncated = frame.len() < full.len();
        if truncated {
            self.stats.truncated_frames += 1;
        }
        self.stats.max_rows_requested = self.stats.max_rows_requested.max(requested as u64);
        if s.kind == SnapKind::Flush {
            if frame.is_empty() && !logs.is_empty() {
                self.stats.text_only_draws += 1;
            }
            if rows < self.last_frame_rows {
                self.stats.frame_shrinks += 1;
            }
            self.last_frame_rows = rows;
        }

        let mut expect: Vec<String> = Vec::new();
        for l in logs {
            expect.extend(phys_rows(l, width));
        }
        let log_rows = expect.len();
        for l in &frame {
            expect.extend(phys_rows(l, width));
        }
        let total_rows = expect.len();
        while expect.last().map(|l| l.is_empty()).unwrap_or(false) {
            expect.pop();
        }
        if s.rows != expect {
            let rule = classify_single(&s.rows, &expect, log_rows.min(expect.len()));
            return Err((
                rule,
                format!("screen rows {:?} != expected log rows + frame rows {:?}", s.rows, expect),
            ));
        }
        // cursor: ordinary output written now must start on a fresh line below the frame
        if self.check_cursor && !truncated {
            let want = (total_rows, 0usize);
            if s.next_pos != want {
                return Err((
                    "cursor-not-fresh-line",
                    format!("next character would land at {:?}, expected {:?}", s.next_pos, want),
                ));
            }
        }
        // a live frame row must never be out of reach (above the visible area)
        if !frame.is_empty() && log_rows < s.top {
            return Err((
                "bar-row-in-scrollback",
                format!("frame starts at row {log_rows} but the visible area starts at {}", s.top),
            ));
        }
        Ok(())
    }

    // --------------------------------------------------------------------------------------
    // tag oracle: MultiProgress (physical rows, expectation-driven parse)
    // --------------------------------------------------------------------------------------

    fn check_multi(
        &mut self,
        s: &Snap,
        logs: &[String],
        _ctx: &FlushCtx,
        cleared: bool,
    ) -> Result<(), (&'static str, String)> {
        let width = self.cfg.width as usize;
        let height = self.cfg.height as usize;
        let got = &s.rows;
        let dump = || format!("{:?}", got);

        #[derive(Debug, Clone, Copy, PartialEq)]
        enum Kind {
            Match(usize),
            Partial(usize, usize),
            Stale(usize),
            NoMatch,
        }
        #[derive(Debug)]
        enum Item {
            Log { k: usize },
            Blank { after_logs: bool },
            Unknown { text: String },
            Block { id: usize, row: usize, rows: usize, kind: Kind },
        }

        let log_phys: Vec<Vec<String>> = logs.iter().map(|l| phys_rows(l, width)).collect();
        let flat = |lines: &[String]| -> Vec<String> {
            lines.iter().flat_map(|l| phys_rows(l, width)).collect::<Vec<_>>()
        };
        // rows below the last non-blank row read as blank (the snapshot drops trailing blanks)
        let starts = |r: usize, p: &[String]| -> bool {
            !p.is_empty()
                && r < got.len()
                && p.iter().enumerate().all(|(i, x)| got.get(r + i).map_or(x.is_empty(), |g| g == x))
        };

        // ---- parse ----------------------------------------------------------------------------
        let mut items: Vec<Item> = Vec::new();
        let mut r = 0usize;
        let mut next_log = 0usize;
        #[allow(unused_assignments)]
        let mut end_row = got.len();
        while r < got.len() {
            let t = &got[r];
            if t.is_empty() {
                if next_log < logs.len() && log_phys[next_log].len() == 1 && log_phys[next_log][0].is_empty() {
                    items.push(Item::Log { k: next_log });
                    next_log += 1;
                } else {
                    items.push(Item::Blank { after_logs: next_log == logs.len() });
                }
                r += 1;
                continue;
            }
            if let Some(id) = bar_tag(t) {
                if let Some(bar) = self.bars.get(id).and_then(|b| b.as_ref()) {
                    let hi = bar.m.cur();
                    let lo = bar.m.lo.unwrap_or(0).max(bar.m.shown.unwrap_or(0)).min(hi);
                    let mut kind = Kind::NoMatch;
                    let mut used = 1usize;
                    // (a wrapped row makes states ambiguous: "B0b 1" is a whole state and also the first row of
                    // "B0b 1" + "0"; untagged continuation rows can only belong to this bar, so the state that
                    // explains the most rows is the one on the screen - the oldest such state)
                    for k in lo..=hi {
                        let p = flat(&bar.m.snaps[k]);
                        if starts(r, &p) && (kind == Kind::NoMatch || p.len() > used) {
                            kind = Kind::Match(k);
                            used = p.len();
                        }
                    }
                    if kind == Kind::NoMatch {
                        // cut by the terminal height: a proper prefix (whole lines) that runs to
                        // the end of the screen
                        'outer: for k in lo..=hi {
                            let lines = &bar.m.snaps[k];
                            for j in (1..lines.len()).rev() {
                                let p = flat(&lines[..j]);
                                if starts(r, &p) && r + p.len() >= got.len() {
                                    kind = Kind::Partial(k, j);
                                    used = p.len();
                                    break 'outer;
                                }
                            }
                        }
                    }
                    if kind == Kind::NoMatch {
                        for k in (0..lo).rev() {
                            let p = flat(&bar.m.snaps[k]);
                            if starts(r, &p) {
                                kind = Kind::Stale(k);
                                used = p.len();
                                break;
                            }
                        }
                    }
                    items.push(Item::Block { id, row: r, rows: used, kind });
                    r += used;
                    continue;
                }
            }
            // a log line? prefer the next expected one, then any other (to name the anomaly)
            let mut found = None;
            if next_log < logs.len() && starts(r, &log_phys[next_log]) {
                found = Some(next_log);
            } else {
                for k in 0..logs.len() {
                    if starts(r, &log_phys[k]) {
                        found = Some(k);
                        break;
                    }
                }
            }
            match found {
                Some(k) => {
                    items.push(Item::Log { k });
                    if k == next_log {
                        next_log += 1;
                    }
                    r += log_phys[k].len();
                }
                None => {
                    items.push(Item::Unknown { text: t.clone() });
                    r += 1;
                }
            }
        }

        end_row = r.max(got.len());

        // ---- unknown rows, block content ---------------------------------------------------------
        let mut seen: Vec<(usize, usize)> = Vec::new(); // (bar id, item index)
        let mut chosen: Vec<(usize, usize)> = Vec::new(); // (bar id, snapshot index)
        let mut partial_tail: Option<(usize, usize, usize)> = None;
        for (pos, it) in items.iter().enumerate() {
            match it {
                Item::Unknown { text } => {
                    return Err(("residue-row", format!("row {:?} is neither a log line nor part of a bar: {}", text, dump())));
                }
                Item::Block { id, kind, .. } => {
                    let bar = self.bars[*id].as_ref().unwrap();
                    if seen.iter().any(|(x, _)| x == id) {
                        return Err(("member-duplicated", format!("B{id} appears twice: {}", dump())));
                    }
                    seen.push((*id, pos));
                    match &bar.m.place {
                        Place::Removed => {
                            return Err(("removed-bar-visible", format!("removed bar B{id} still painted: {}", dump())));
                        }
                        Place::Member if cleared => {
                            return Err(("frame-not-cleared", format!("B{id} visible although the region was cleared: {}", dump())));
                        }
                        _ => {}
                    }
                    let hi = bar.m.cur();
                    let lo = bar.m.lo.unwrap_or(0).max(bar.m.shown.unwrap_or(0)).min(hi);
                    match kind {
                        Kind::Match(k) => chosen.push((*id, *k)),
                        Kind::Partial(k, j) => {
                            chosen.push((*id, *k));
                            partial_tail = Some((*id, *k, *j));
                        }
                        Kind::Stale(k) => {
                            let rule = match &bar.m.place {
                                Place::Ghost { .. } => "final-frame-stale",
                                Place::Gone => "cleared-bar-visible",
                                _ => "member-stale",
                            };
                            return Err((
                                rule,
                                format!("B{id} shows state {k} {:?}; acceptable states {lo}..={hi}, e.g. {:?}: {}", bar.m.snaps[*k], bar.m.snaps[hi], dump()),
                            ));
                        }
                        Kind::NoMatch => {
                            return Err((
                                "member-content",
                                format!("rows of B{id} match none of its states {lo}..={hi} (e.g. {:?}): {}", bar.m.snaps[hi], dump()),
                            ));
                        }
                    }
                }
                _ => {}
            }
        }

        // ---- order ------------------------------------------------------------------------------
        let posn = |id: usize| seen.iter().find(|(x, _)| *x == id).map(|(_, p)| *p);
        let member_positions: Vec<(usize, usize)> = self
            .order
            .iter()
            .filter_map(|id| posn(*id).map(|p| (*id, p)))
            .collect();
        for w in member_positions.windows(2) {
            if w[0].1 > w[1].1 {
                return Err(("member-order", format!("B{} must be above B{}: {}", w[0].0, w[1].0, dump())));
            }
        }
        for b in self.bars.iter().flatten() {
            if let Place::Ghost { ahead, behind, .. } = &b.m.place {
                let Some(g) = posn(b.m.id) else { continue };
                for a in ahead {
                    if self.order.contains(a) {
                        if let Some(p) = posn(*a) {
                            if p > g {
                                return Err(("member-order", format!("B{a} must be above finished B{}: {}", b.m.id, dump())));
                            }
                        }
                    }
                }
                for x in behind {
                    if self.order.contains(x) {
                        if let Some(p) = posn(*x) {
                            if p < g {
                                return Err(("member-order", format!("finished B{} must be above B{x}: {}", b.m.id, dump())));
                            }
                        }
                    }
                }
            }
        }

        // ---- frame geometry ---------------------------------------------------------------------
        let first_member_item = member_positions.iter().map(|(_, p)| *p).min();
        let mut frame_rows = 0usize;
        let mut generous_rows = 0usize;
        if let Some(fm) = first_member_item {
            for it in &items[fm..] {
                if let Item::Block { rows, .. } = it {
                    frame_rows += rows;
                }
            }
            generous_rows = frame_rows;
            for it in items[..fm].iter().rev() {
                match it {
                    Item::Block { rows, .. } => generous_rows += rows,
                    _ => break,
                }
            }
            if let Item::Block { row, id, .. } = &items[fm] {
                if *row < s.top {
                    return Err((
                        "bar-row-in-scrollback",
                        format!("live bar B{id} starts at row {row}, visible area starts at {}: {}", s.top, dump()),
                    ));
                }
            }
        } else {
            for it in items.iter().rev() {
                match it {
                    Item::Block { rows, .. } => generous_rows += rows,
                    _ => break,
                }
            }
        }
        self.stats.max_rows_requested = self.stats.max_rows_requested.max(generous_rows as u64);

        // ---- presence ---------------------------------------------------------------------------
        let mut truncated = partial_tail.is_some();
        if let Some((id, k, j)) = partial_tail {
            let bar = self.bars[id].as_ref().unwrap();
            // any acceptable state with the same leading lines whose next line does not fit
            // justifies the cut
            let hi = bar.m.cur();
            let lo = bar.m.lo.unwrap_or(0).max(bar.m.shown.unwrap_or(0)).min(hi);
            let shown = flat(&bar.m.snaps[k][..j]);
            let justified = (lo..=hi).any(|k2| {
                let l = &bar.m.snaps[k2];
                l.len() > j && flat(&l[..j]) == shown && generous_rows + phys_rows(&l[j], width).len() > height
            });
            if !justified {
                return Err((
                    "member-content",
                    format!("B{id} is cut after {j} line(s) although the next one fits ({generous_rows} rows used, height {height}): {}", dump()),
                ));
            }
            self.stats.truncated_frames += 1;
        }
        let check_presence = |w: &World, id: usize, rule: &'static str, truncated: &mut bool| -> Result<(), (&'static str, String)> {
            let bar = w.bars[id].as_ref().unwrap();
            if posn(id).is_some() || *truncated {
                return Ok(());
            }
            let Some(lo) = bar.m.lo else {
                // no frame of this bar has been flushed yet, so it need not be there - but it may well have
                // been rendered into its member state by a request the limiter then declined to flush; if
                // such a rendering does not fit, the frame is legitimately cut in front of everything behind
                if !bar.m.snaps.is_empty()
                    && (0..=bar.m.cur()).any(|k| !bar.m.snaps[k].is_empty() && generous_rows + phys_rows(&bar.m.snaps[k][0], width).len() > height)
                {
                    *truncated = true;
                }
                return Ok(());
            };
            let hi = bar.m.cur();
            let lo = lo.max(bar.m.shown.unwrap_or(0)).min(hi);
            if (lo..=hi).any(|k| bar.m.snaps[k].is_empty()) {
                return Ok(());
            }
            if (lo..=hi).any(|k| generous_rows + phys_rows(&bar.m.snaps[k][0], width).len() > height) {
                *truncated = true;
                return Ok(());
            }
            Err((
                rule,
                format!("B{id} (state {lo}..={hi}, e.g. {:?}) is not on the screen: {}", bar.m.snaps[hi], dump()),
            ))
        };
        if !cleared {
            // a finished-and-dropped bar that may still be part of the real list (not yet reaped)
            // and does not fit any more cuts the frame in front of everything behind it
            for b in self.bars.iter().flatten() {
                if matches!(b.m.place, Place::Ghost { .. }) && posn(b.m.id).is_none() {
                    let hi = b.m.cur();
                    let lo = b.m.lo.unwrap_or(0).max(b.m.shown.unwrap_or(0)).min(hi);
                    if (lo..=hi).any(|k| {
                        !b.m.snaps[k].is_empty() && generous_rows + phys_rows(&b.m.snaps[k][0], width).len() > height
                    }) {
                        truncated = true;
                    }
                }
            }
            for id in self.order.clone() {
                check_presence(self, id, "member-missing", &mut truncated)?;
            }
            if truncated && partial_tail.is_none() {
                self.stats.truncated_frames += 1;
            }
            let ghosts: Vec<usize> = self
                .bars
                .iter()
                .flatten()
                .filter(|b| matches!(b.m.place, Place::Ghost { required: true, .. }))
                .map(|b| b.m.id)
                .collect();
            for id in ghosts {
                let mut t = truncated;
                check_presence(self, id, "final-frame-missing", &mut t)?;
            }
        }

        // ---- the log: every emitted line exactly once, in order, above the live bars ---------------
        let mut expect_k = 0usize;
        let mut last_log_item: Option<usize> = None;
        let mut seen_logs = vec![0u32; logs.len()];
        for (pos, it) in items.iter().enumerate() {
            if let Item::Log { k } = it {
                seen_logs[*k] += 1;
                last_log_item = Some(pos);
            }
        }
        if let Some(k) = seen_logs.iter().position(|c| *c > 1) {
            return Err(("log-duplicated", format!("log line {:?} is on the screen {} times: {}", logs[k], seen_logs[k], dump())));
        }
        for it in &items {
            if let Item::Log { k } = it {
                if *k < expect_k {
                    return Err(("log-reordered", format!("log line {:?} appears below a later one: {}", logs[*k], dump())));
                }
                expect_k = *k + 1;
            }
        }
        // trailing empty log lines are invisible when nothing follows them
        // (they would sit at the very end of the screen, which is only legitimate when no live
        // bar is painted)
        let _ = last_log_item;
        let block_after_last_log = first_member_item.is_some();
        let mut missing_blank = 0usize;
        for (k, c) in seen_logs.iter().enumerate() {
            if *c == 0 {
                let is_trailing_blank = logs[k..].iter().all(|l| phys_rows(l, width) == vec![String::new()])
                    && seen_logs[k..].iter().all(|c| *c == 0)
                    && !block_after_last_log;
                if is_trailing_blank {
                    missing_blank = logs.len() - k;
                    break;
                }
                return Err(("log-missing", format!("log line {:?} is not on the screen: {}", logs[k], dump())));
            }
        }
        for (pos, it) in items.iter().enumerate() {
            match it {
                Item::Log { k } => {
                    if let Some(fm) = first_member_item {
                        if pos > fm {
                            return Err(("log-below-bar", format!("log line {:?} is below a live bar: {}", logs[*k], dump())));
                        }
                    }
                }
                Item::Blank { after_logs } => {
                    let in_frame = first_member_item.map_or(false, |fm| pos > fm);
                    if in_frame {
                        return Err(("blank-row-in-frame", format!("blank row inside the live region: {}", dump())));
                    }
                    let filler_ok = self.ever_bottom && *after_logs && !items[pos..].iter().any(|x| matches!(x, Item::Log { .. }));
                    if !filler_ok {
                        return Err(("blank-row", format!("unaccounted blank row: {}", dump())));
                    }
                }
                _ => {}
            }
        }

        // ---- cursor -----------------------------------------------------------------------------
        if self.check_cursor && !truncated {
            let want = (end_row + missing_blank, 0usize);
            let ok = if self.ever_bottom {
                // bottom alignment keeps the height of the region: blank rows may remain
                s.next_pos.1 == 0 && s.next_pos.0 >= want.0
            } else {
                s.next_pos == want
            };
            if !ok {
                return Err((
                    "cursor-not-fresh-line",
                    format!("next character would land at {:?}, expected {:?}: {}", s.next_pos, want, dump()),
                ));
            }
        }

        // ---- commit what was shown ---------------------------------------------------------------
        if s.kind == SnapKind::Flush {
            if frame_rows < self.last_frame_rows {
                self.stats.frame_shrinks += 1;
            }
            self.last_frame_rows = frame_rows;
            if first_member_item.is_none() && !logs.is_empty() {
                self.stats.text_only_draws += 1;
            }
        }
        if s.kind == SnapKind::Flush {
            let ids: Vec<usize> = chosen.iter().map(|(id, _)| *id).collect();
            for b in self.bars.iter_mut().flatten() {
                b.m.on_screen = ids.contains(&b.m.id);
            }
        }
        for (id, k) in chosen {
            let bar = self.bars[id].as_mut().unwrap();
            bar.m.shown = Some(bar.m.shown.map_or(k, |s| s.max(k)));
        }
        Ok(())
    }
}

#[derive(Clone, Debug)]
pub struct OpObs {
    pub index: usize,
    pub name: &'static str,
    pub bar: Option<usize>,
    pub flushed: u64,
    pub calls: u64,
    pub finishing: bool,
    pub expect_flush: bool,
    pub drop_finished: bool,
}

#[derive(Clone, Debug, Default)]
pub struct FlushCtx {
    /// the operation removed this bar from the MultiProgress
    pub removed: Option<usize>,
    pub acting: Option<usize>,
    pub maybe_attempt: bool,
    pub forced: bool,
    pub clears: bool,
    pub clear_only: bool,
    pub suspend: bool,
    pub user_lines: usize,
    pub finishing: bool,
    pub finish_expect_flush: bool,
    pub drop_finished: bool,
}

pub fn println_lines(t: &str) -> Vec<String> {
    let v: Vec<String> = t.lines().map(|l| l.to_string()).collect();
    if v.is_empty() {
        vec![String::new()]
    } else {
        v
    }
}

/// `B<digits>` at the start of a row identifies the bar it belongs to.
pub fn bar_tag(t: &str) -> Option<usize> {
    let rest = t.strip_prefix('B')?;
    let digits: String = rest.chars().take_while(|c| c.is_ascii_digit()).collect();
    if digits.is_empty() {
        return None;
    }
    digits.parse().ok()
}

fn classify_single(got: &[String], expect: &[String], log_rows: usize) -> &'static str {
    let count = |v: &[String], x: &String| v.iter().filter(|y| *y == x).count();
    for w in &expect[..log_rows.min(expect.len())] {
        if !w.is_empty() && count(got, w) < count(expect, w) {
            return "log-missing";
        }
    }
    for w in &expect[log_rows.min(expect.len())..] {
        if !w.is_empty() && count(got, w) < count(expect, w) {
            return "frame-row-missing";
        }
    }
    for g in got {
        if !g.is_empty() && count(expect, g) == 0 {
            return "residue-row";
        }
    }
    for g in got {
        if !g.is_empty() && count(got, g) > count(expect, g) {
            return "row-duplicated";
        }
    }
    if got.len() > expect.len() {
        return "blank-row";
    }
    if got.len() < expect.len() {
        return "blank-row-missing";
    }
    "row-order"
}

pub fn panic_message(p: &Box<dyn std::any::Any + Send>) -> String {
    if let Some(s) = p.downcast_ref::<&str>() {
        s.to_string()
    } else if let Some(s) = p.downcast_ref::<String>() {
        s.clone()
    } else {
        "<non-string panic>".to_string()
    }
}
