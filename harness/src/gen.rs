//! History generators for the screen-oracle properties (C01, C02, C03, C04, C19 …).

use crate::prng::Rng;
use crate::world::{Fin, Loc, Op, Part, WorldCfg};

#[derive(Clone, Debug)]
pub struct GenOpts {
    pub multi: bool,
    pub max_bars: usize,
    pub min_ops: usize,
    pub max_ops: usize,
    /// allow double-width characters in texts
    pub wide: bool,
    pub ansi: bool,
    /// allow templates / texts with empty lines
    pub empty_lines: bool,
    pub multiline: bool,
    /// allow bottom alignment
    pub bottom: bool,
    /// candidate refresh rates (None = unlimited target)
    pub hz: Vec<Option<u8>>,
    pub widths: Vec<u16>,
    /// None: a height in which every frame fits; Some: explicit candidates (C19)
    pub heights: Option<Vec<u16>>,
    /// weight multiplier for println/suspend (C03)
    pub log_weight: u32,
    /// weight multiplier for finish/drop (C04)
    pub finish_weight: u32,
    /// insert limiter-exhausting bursts in front of finishing ops (C04)
    pub exhaust: bool,
    pub tabs: bool,
}

impl GenOpts {
    pub fn single() -> Self {
        Self {
            multi: false,
            max_bars: 1,
            min_ops: 3,
            max_ops: 40,
            wide: false,
            ansi: true,
            empty_lines: true,
            multiline: true,
            bottom: false,
            hz: vec![None, None, Some(20), Some(1), Some(255)],
            widths: (1..=40).chain([80, 200]).collect(),
            heights: None,
            log_weight: 1,
            finish_weight: 1,
            exhaust: false,
            tabs: false,
        }
    }

    pub fn multi() -> Self {
        Self {
            multi: true,
            max_bars: 6,
            min_ops: 4,
            max_ops: 45,
            wide: false,
            ansi: false,
            empty_lines: false,
            multiline: true,
            bottom: false,
            hz: vec![None, None, None, Some(20), Some(1)],
            widths: vec![8, 10, 13, 20, 30, 40, 80],
            heights: None,
            log_weight: 1,
            finish_weight: 1,
            exhaust: false,
            tabs: false,
        }
    }
}

const LETTERS: &[u8] = b"abcdefghijklmnopqrstuvwxyz";
const WIDE: &[char] = &['世', '界', '日', '本', '語', '한', '글'];

pub fn payload(rng: &mut Rng, cols: usize, wide: bool) -> String {
    let mut s = String::new();
    let mut c = 0;
    while c < cols {
        if wide && cols - c >= 2 && rng.chance(1, 3) {
            s.push(*rng.pick(WIDE));
            c += 2;
        } else {
            s.push(LETTERS[rng.usize(LETTERS.len())] as char);
            c += 1;
        }
    }
    s
}

/// A display width clustered around multiples of the terminal width.
pub fn pick_cols(rng: &mut Rng, w: usize) -> usize {
    let k = rng.range(1, 3) as usize;
    match rng.below(10) {
        0 => 0,
        1 => 1,
        2 => (k * w).saturating_sub(1),
        3 => k * w,
        4 => k * w + 1,
        5 => w / 2,
        6 => rng.usize(3 * w + 1),
        _ => rng.usize(w.max(2)),
    }
}

/// `tag` + payload so that the whole text is `cols` wide (never shorter than the tag).
pub fn tagged(rng: &mut Rng, tag: &str, cols: usize, wide: bool) -> String {
    let t = tag.chars().count();
    let mut s = tag.to_string();
    if cols > t {
        s.push_str(&payload(rng, cols - t, wide));
    }
    s
}

pub struct Gen<'a> {
    pub rng: &'a mut Rng,
    pub o: &'a GenOpts,
    pub w: usize,
    log_no: usize,
    seq: usize,
}

impl<'a> Gen<'a> {
    pub fn new(rng: &'a mut Rng, o: &'a GenOpts, w: usize) -> Self {
        Self { rng, o, w, log_no: 0, seq: 0 }
    }

    fn ansi_wrap(&mut self, s: String) -> String {
        if self.o.ansi && self.rng.chance(1, 8) {
            format!("\x1b[1m{s}\x1b[0m")
        } else {
            s
        }
    }

    /// Text for println / a suspend closure. Every non-empty line starts with a unique tag.
    pub fn log_text(&mut self) -> String {
        let n = self.log_no;
        self.log_no += 1;
        let kind = self.rng.below(12);
        let wide = self.o.wide;
        match kind {
            0 => String::new(),
            1 if self.o.multiline => {
                let a = pick_cols(self.rng, self.w);
                let b = pick_cols(self.rng, self.w);
                format!(
                    "{}\n{}",
                    tagged(self.rng, &format!("L{n}a:"), a, wide),
                    tagged(self.rng, &format!("L{n}b:"), b, wide)
                )
            }
            2 if self.o.multiline && self.o.empty_lines => {
                let a = pick_cols(self.rng, self.w);
                format!("{}\n\n{}", tagged(self.rng, &format!("L{n}a:"), a, wide), format!("L{n}c"))
            }
            3 if self.o.ansi => "\x1b[1m\x1b[0m".to_string(),
            // a text whose FIRST line has no visible character (but is not the empty message): a leading
            // newline, or a line of ANSI sequences only, with visible text below it
            4 if self.o.multiline && self.o.empty_lines => {
                let c = pick_cols(self.rng, self.w);
                format!("\n{}", tagged(self.rng, &format!("L{n}b:"), c, wide))
            }
            5 if self.o.multiline && self.o.ansi => {
                let c = pick_cols(self.rng, self.w);
                format!("\x1b[1m\x1b[0m\n{}", tagged(self.rng, &format!("L{n}b:"), c, wide))
            }
            _ => {
                let c = pick_cols(self.rng, self.w);
                let t = tagged(self.rng, &format!("L{n}:"), c, wide);
                self.ansi_wrap(t)
            }
        }
    }

    pub fn user_lines(&mut self) -> Vec<String> {
        let k = self.rng.below(3) as usize;
        (0..k)
            .map(|_| {
                let n = self.log_no;
                self.log_no += 1;
                let c = pick_cols(self.rng, self.w);
                tagged(self.rng, &format!("U{n}:"), c, self.o.wide)
            })
            .collect()
    }

    /// Message / prefix text. In a multi world continuation lines carry the bar tag.
    pub fn bar_text(&mut self, b: usize, what: char) -> String {
        self.seq += 1;
        let n = self.seq;
        let wide = self.o.wide;
        let multi = self.o.multi;
        let kind = self.rng.below(10);
        match kind {
            0 if !multi => String::new(),
            1 if self.o.multiline => {
                let a = pick_cols(self.rng, self.w);
                let c = pick_cols(self.rng, self.w);
                let first = tagged(self.rng, &format!("{what}#{n}"), a, wide);
                let tag2 = if multi { format!("B{b}~{what}#{n}") } else { format!("{what}~{n}") };
                format!("{first}\n{}", tagged(self.rng, &tag2, c, wide))
            }
            2 if self.o.multiline && self.o.empty_lines && !multi => {
                format!("{what}#{n}\n")
            }
            3 if self.o.ansi && !multi => "\x1b[32m\x1b[0m".to_string(),
            4 if self.o.tabs => format!("{what}#{n}\tx\t"),
            _ => {
                let c = pick_cols(self.rng, self.w);
                let t = tagged(self.rng, &format!("{what}#{n}"), c, wide);
                self.ansi_wrap(t)
            }
        }
    }

    pub fn template(&mut self, b: usize) -> Vec<Part> {
        let multi = self.o.multi;
        let tag = |s: &str| Part::Lit(format!("B{b}{s} "));
        let max = if multi { 5 } else { 10 };
        match self.rng.below(max) {
            0 => vec![tag(""), Part::Msg],
            1 => vec![tag(""), Part::Prefix, Part::Lit("|".into()), Part::Msg, Part::Lit(" ".into()), Part::Pos, Part::Lit("/".into()), Part::Len],
            2 if self.o.multiline => vec![tag("a"), Part::Msg, Part::NL, tag("b"), Part::Pos],
            3 if self.o.multiline => vec![tag("a"), Part::Prefix, Part::NL, tag("b"), Part::Msg, Part::NL, tag("c"), Part::Pos, Part::Lit("/".into()), Part::Len],
            4 => vec![tag(""), Part::Pos, Part::Lit(" ".into()), Part::Msg],
            // below: single-bar only (untagged / empty lines)
            5 => vec![Part::Msg],
            6 if self.o.empty_lines => vec![Part::NL, tag(""), Part::Msg],
            7 if self.o.empty_lines => vec![Part::Msg, Part::NL, Part::Prefix],
            8 if self.o.empty_lines => vec![tag("a"), Part::NL, Part::NL, tag("b"), Part::Msg],
            9 => vec![Part::Prefix, Part::Msg],
            _ => vec![tag(""), Part::Msg],
        }
    }

    pub fn fin(&mut self, b: usize) -> Fin {
        match self.rng.below(6) {
            0 => Fin::Leave,
            1 => Fin::WithMsg(self.bar_text(b, 'f')),
            2 => Fin::Abandon,
            3 => Fin::AbandonMsg(self.bar_text(b, 'a')),
            _ => Fin::Clear,
        }
    }

    pub fn len(&mut self) -> Option<u64> {
        match self.rng.below(6) {
            0 => None,
            1 => Some(0),
            2 => Some(self.rng.u64_biased()),
            _ => Some(self.rng.range(1, 1000)),
        }
    }
}

/// One history: configuration + operations.
pub fn gen_history(rng: &mut Rng, o: &GenOpts) -> (WorldCfg, Vec<Op>) {
    let width = *rng.pick(&o.widths);
    let hz = *rng.pick(&o.hz);
    let w = width as usize;
    let mut ops: Vec<Op> = Vec::new();
    let n_ops = rng.range(o.min_ops as u64, o.max_ops as u64) as usize;
    let mut g = Gen::new(rng, o, w);
    let mut created = 0usize;
    let mut live: Vec<usize> = Vec::new(); // bars that (probably) still have handles
    let mut mp_alive = o.multi;

    let new_bar = |g: &mut Gen, created: &mut usize, live: &mut Vec<usize>, ops: &mut Vec<Op>| {
        let b = *created;
        *created += 1;
        let loc = if g.o.multi && !live.is_empty() {
            match g.rng.below(8) {
                0 => Loc::Index(g.rng.usize(live.len() + 2)),
                1 => Loc::FromBack(g.rng.usize(live.len() + 2)),
                2 => Loc::Before(*g.rng.pick(live)),
                3 => Loc::After(*g.rng.pick(live)),
                4 => Loc::Index(0),
                _ => Loc::End,
            }
        } else {
            Loc::End
        };
        let with_text = g.rng.chance(1, 2);
        let msg = if with_text { g.bar_text(b, 'm') } else { String::new() };
        let prefix = if g.rng.chance(1, 4) { g.bar_text(b, 'p') } else { String::new() };
        let op = Op::New { b, len: g.len(), tmpl: g.template(b), fin: g.fin(b), loc, msg, prefix };
        ops.push(op);
        live.push(b);
    };

    new_bar(&mut g, &mut created, &mut live, &mut ops);
    if o.multi {
        let extra = g.rng.usize(o.max_bars.min(4));
        for _ in 0..extra {
            new_bar(&mut g, &mut created, &mut live, &mut ops);
        }
    }

    // Directed prologue (round 11): bottom alignment from the start, three or more members drawn, two or more of
    // them cleared so that the region keeps spare rows, then a log with fewer lines than spare rows and a redraw -
    // the history that exposes any confusion between the alignment filler and the rows counted as erasable.
    if o.multi && o.bottom && g.rng.chance(1, 6) {
        while live.len() < 3 && created < o.max_bars {
            new_bar(&mut g, &mut created, &mut live, &mut ops);
        }
        if live.len() >= 3 {
            ops.insert(0, Op::Align(true));
            for &b in &live {
                ops.push(Op::Tick(b));
            }
            let keep = g.rng.usize(live.len());
            let mut cleared = 0;
            for (i, &b) in live.iter().enumerate() {
                if i != keep && (cleared < 2 || g.rng.chance(1, 2)) {
                    ops.push(Op::Advance(1_000_000_000));
                    ops.push(Op::FinishClear(b));
                    cleared += 1;
                }
            }
            for _ in 0..2 {
                ops.push(Op::Advance(1_000_000_000));
                let t = g.log_text();
                ops.push(Op::MpPrintln(t));
                ops.push(Op::Advance(1_000_000_000));
                ops.push(Op::Tick(live[keep]));
            }
        }
    }

    while ops.len() < n_ops {
        if live.is_empty() && (!o.multi || created >= o.max_bars) {
            break;
        }
        // time passes
        if g.rng.chance(3, 5) {
            let ns = match g.rng.below(8) {
                0 => 0,
                1 => g.rng.range(1, 999_999),
                2 => 1_000_000,
                3 => g.rng.range(1_000_000, 60_000_000),
                4 => g.rng.range(1, 5) * 1_000_000_000,
                _ => g.rng.range(1_000_000, 5_000_000),
            };
            if ns > 0 {
                ops.push(Op::Advance(ns));
            }
        }
        let lw = o.log_weight;
        let fw = o.finish_weight;
        let multi = o.multi as u32;
        // weights
        let weights: [u32; 24] = [
            10,           // 0 tick
            10,           // 1 inc
            2,            // 2 dec
            6,            // 3 set_position
            4,            // 4 set_length family
            12,           // 5 set_message
            4,            // 6 set_prefix
            3,            // 7 set_style
            6 * lw,       // 8 println
            3 * lw,       // 9 suspend
            2,            // 10 reset family
            3 * fw,       // 11 finish family
            2,            // 12 force_draw
            2,            // 13 clone / drop one handle
            3 * fw,       // 14 drop bar
            4 * multi,    // 15 new bar
            5 * lw * multi, // 16 mp println
            2 * lw * multi, // 17 mp suspend
            3 * multi,    // 18 remove
            2 * multi,    // 19 mp clear
            if o.bottom { 2 * multi } else { 0 }, // 20 alignment
            multi,        // 21 drop mp
            if o.tabs { 3 } else { 0 }, // 22 tab width
            2,            // 23 burst of position updates at one instant
        ];
        let k = g.rng.weighted(&weights);
        let need_bar = !matches!(k, 15 | 16 | 17 | 19 | 20 | 21);
        if need_bar && live.is_empty() {
            if o.multi && created < o.max_bars && mp_alive {
                new_bar(&mut g, &mut created, &mut live, &mut ops);
            }
            continue;
        }
        let b = if live.is_empty() { 0 } else { *g.rng.pick(&live) };
        match k {
            0 => ops.push(Op::Tick(b)),
            1 => ops.push(Op::Inc(b, g.rng.range(0, 20))),
            2 => ops.push(Op::Dec(b, g.rng.range(0, 3))),
            3 => ops.push(Op::SetPos(b, if g.rng.chance(1, 8) { g.rng.u64_biased() } else { g.rng.range(0, 1200) })),
            4 => ops.push(match g.rng.below(4) {
                0 => Op::SetLen(b, g.rng.range(0, 2000)),
                1 => Op::IncLen(b, g.rng.range(0, 50)),
                2 => Op::DecLen(b, g.rng.range(0, 50)),
                _ => Op::UnsetLen(b),
            }),
            5 => {
                let t = g.bar_text(b, 'm');
                ops.push(Op::Msg(b, t));
            }
            6 => {
                let t = g.bar_text(b, 'p');
                ops.push(Op::Prefix(b, t));
            }
            7 => {
                let t = g.template(b);
                ops.push(Op::Style(b, t));
                if g.rng.chance(2, 3) {
                    ops.push(Op::Tick(b));
                }
            }
            8 => {
                // (forced operations must stay forced when the limiter has nothing left)
                if o.exhaust && g.rng.chance(1, 3) {
                    exhaust(&mut g, b, &mut ops);
                }
                let t = g.log_text();
                ops.push(Op::Println(b, t));
            }
            9 => {
                if o.exhaust && g.rng.chance(1, 2) {
                    exhaust(&mut g, b, &mut ops);
                }
                let l = g.user_lines();
                ops.push(Op::Suspend(b, l));
            }
            10 => ops.push(match g.rng.below(3) {
                0 => Op::Reset(b),
                1 => Op::ResetEta(b),
                _ => Op::ResetElapsed(b),
            }),
            11 => {
                if o.exhaust && g.rng.chance(2, 3) {
                    exhaust(&mut g, b, &mut ops);
                }
                let op = match g.rng.below(6) {
                    0 => Op::Finish(b),
                    1 => Op::FinishMsg(b, g.bar_text(b, 'F')),
                    2 => Op::FinishClear(b),
                    3 => Op::Abandon(b),
                    4 => Op::AbandonMsg(b, g.bar_text(b, 'A')),
                    _ => Op::FinishStyle(b),
                };
                ops.push(op);
            }
            12 => ops.push(Op::ForceDraw(b)),
            13 => ops.push(if g.rng.chance(1, 2) { Op::CloneBar(b) } else { Op::DropOne(b) }),
            14 => {
                if o.exhaust && g.rng.chance(1, 2) {
                    exhaust(&mut g, b, &mut ops);
                    // one more change of the bar while the limiter has nothing left (the bar may already be
                    // finished: its last state is what has to be on the screen after the drop)
                    if g.rng.chance(1, 2) {
                        let t = g.bar_text(b, 'm');
                        ops.push(if g.rng.chance(1, 2) { Op::Msg(b, t) } else { Op::Prefix(b, t) });
                    }
                }
                ops.push(Op::DropBar(b));
                live.retain(|x| *x != b);
            }
            15 => {
                if created < o.max_bars && mp_alive {
                    new_bar(&mut g, &mut created, &mut live, &mut ops);
                }
            }
            16 => {
                if o.exhaust && g.rng.chance(1, 3) {
                    exhaust(&mut g, b, &mut ops);
                }
                let t = g.log_text();
                ops.push(Op::MpPrintln(t));
            }
            17 => {
                if o.exhaust && g.rng.chance(1, 2) {
                    exhaust(&mut g, b, &mut ops);
                }
                let l = g.user_lines();
                ops.push(Op::MpSuspend(l));
            }
            18 => ops.push(if g.rng.chance(1, 4) { Op::ReAdd(b) } else { Op::Remove(b) }),
            19 => {
                if o.exhaust && g.rng.chance(1, 2) {
                    exhaust(&mut g, b, &mut ops);
                }
                ops.push(Op::MpClear)
            }
            20 => ops.push(Op::Align(g.rng.chance(2, 3))),
            21 => {
                if g.rng.chance(1, 3) {
                    ops.push(Op::DropMp);
                    mp_alive = false;
                }
            }
            22 => ops.push(Op::TabWidth(b, *g.rng.pick(&[0usize, 1, 2, 4, 8, 13]))),
            _ => {
                let n = g.rng.range(3, 30);
                for _ in 0..n {
                    ops.push(Op::Inc(b, 1));
                }
            }
        }
    }

    // revealing suffix: make latent mis-accounting visible before the history ends
    for b in live.clone() {
        ops.push(Op::Advance(2_000_000_000));
        ops.push(Op::ForceDraw(b));
    }
    if let Some(b) = live.first().copied() {
        let t = g.log_text();
        ops.push(Op::Println(b, t));
    }
    if o.multi {
        let t = g.log_text();
        ops.push(Op::MpPrintln(t));
        ops.push(Op::MpClear);
        let t = g.log_text();
        ops.push(Op::MpPrintln(t));
    }
    for b in live.clone() {
        ops.push(Op::Advance(2_000_000_000));
        if g.rng.chance(1, 2) {
            ops.push(Op::FinishClear(b));
        } else {
            ops.push(Op::DropBar(b));
        }
    }
    // (with no bar left on the screen, log lines follow each other directly: two or three in a row)
    for _ in 0..g.rng.range(1, 3) {
        if let Some(b) = live.first().copied() {
            let t = g.log_text();
            ops.push(Op::Println(b, t));
        }
        if o.multi {
            let t = g.log_text();
            ops.push(Op::MpPrintln(t));
        }
    }

    // height: either from the candidates, or generous enough for any frame of this history
    let height = match &o.heights {
        Some(h) => *rng.pick(h),
        None => {
            let need = frame_rows_bound(&ops, w) as u16;
            let slack = rng.below(6) as u16;
            need.saturating_add(slack).max(2).min(2000)
        }
    };
    (
        WorldCfg { width, height, hz, multi: o.multi, cross_check: true, move_cursor: false },
        ops,
    )
}

fn exhaust(g: &mut Gen, b: usize, ops: &mut Vec<Op>) {
    // ≥ 21 ordinary draws and ≥ 11 position updates at one virtual instant
    let n = g.rng.range(21, 30);
    for _ in 0..n {
        ops.push(Op::Tick(b));
    }
    let n = g.rng.range(11, 15);
    for _ in 0..n {
        ops.push(Op::Inc(b, 1));
    }
}

/// Generous upper bound for the number of rows all frames of a history can need at once.
pub fn frame_rows_bound(ops: &[Op], w: usize) -> usize {
    use crate::vscreen::cols_of;
    let mut max_text_rows = 1usize;
    let mut max_tmpl_lines = 1usize;
    let mut bars = 0usize;
    let mut text = |t: &str| {
        let rows: usize = t.split('\n').map(|l| (cols_of(l) + 30) / w.max(1) + 1).sum();
        max_text_rows = max_text_rows.max(rows);
    };
    for op in ops {
        match op {
            Op::New { tmpl, msg, prefix, fin, .. } => {
                bars += 1;
                max_tmpl_lines = max_tmpl_lines.max(tmpl.iter().filter(|p| **p == Part::NL).count() + 1);
                text(msg);
                text(prefix);
                if let Fin::WithMsg(m) | Fin::AbandonMsg(m) = fin {
                    text(m);
                }
            }
            Op::Style(_, tmpl) => {
                max_tmpl_lines = max_tmpl_lines.max(tmpl.iter().filter(|p| **p == Part::NL).count() + 1);
            }
            Op::Msg(_, t) | Op::Prefix(_, t) | Op::FinishMsg(_, t) | Op::AbandonMsg(_, t) => text(t),
            _ => {}
        }
    }
    // per bar: every template line may carry message and prefix
    bars.max(1) * (max_tmpl_lines + 2 * max_text_rows + 60 / w.max(1) + 2)
}
