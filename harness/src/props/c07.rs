//! C07: position and length bookkeeping, including concurrent increments.

use super::{PropResult, RunCfg};
use crate::json::J;
use crate::prng::{fnv1a, Rng};
use crate::report::{workers, CaseOut, Verdict, Violation};
use crate::spy::SpyTerm;
use crate::world::install_session;
use indicatif::{ProgressBar, ProgressDrawTarget, ProgressStyle};
use std::panic::{catch_unwind, AssertUnwindSafe};
use std::sync::atomic::{AtomicU64, Ordering};
use std::sync::Arc;
use std::time::Duration;

fn viol(rule: &str, feats: Vec<String>, detail: String, w: J, replay: String) -> Verdict {
    Verdict::Violated(Box::new(Violation { rule: rule.into(), features: feats, detail, witness: w, replay }))
}

#[derive(Clone, Debug)]
enum Op {
    Inc(u64),
    Dec(u64),
    SetPos(u64),
    /// the builder `with_position(p)` applied to a handle of the running bar (it SETS the position)
    WithPos(u64),
    SetLen(u64),
    IncLen(u64),
    DecLen(u64),
    UnsetLen,
    Reset,
    /// reset_eta() / reset_elapsed(): clocks only, the position history is untouched
    ResetEta,
    ResetElapsed,
    Finish,
    FinishClear,
    Abandon,
    AbandonMsg,
    FinishMsg,
    /// finish_using_style(): the behaviour configured with with_finish() at construction
    FinishStyle,
    UpdateSetPos(u64),
    UpdateSetLen(u64),
    Tick,
    Advance(u64),
}

fn op_class(op: &Op) -> &'static str {
    match op {
        Op::Inc(_) => "inc",
        Op::Dec(_) => "dec",
        Op::SetPos(_) => "set_position",
        Op::WithPos(_) => "with_position",
        Op::SetLen(_) => "set_length",
        Op::IncLen(_) => "inc_length",
        Op::DecLen(_) => "dec_length",
        Op::UnsetLen => "unset_length",
        Op::Reset => "reset",
        Op::ResetEta => "reset_eta",
        Op::ResetElapsed => "reset_elapsed",
        Op::Finish => "finish",
        Op::FinishClear => "finish_and_clear",
        Op::Abandon => "abandon",
        Op::AbandonMsg => "abandon_with_message",
        Op::FinishMsg => "finish_with_message",
        Op::FinishStyle => "finish_using_style",
        Op::UpdateSetPos(_) => "update_set_pos",
        Op::UpdateSetLen(_) => "update_set_len",
        Op::Tick => "tick",
        Op::Advance(_) => "advance",
    }
}

fn sequential_case(seed: u64, idx: u64) -> CaseOut {
    let mut rng = Rng::derive(seed, 7, idx);
    let replay = format!("s{seed}:{idx}");
    let clock = Arc::new(AtomicU64::new(3_000_000_000));
    install_session(&clock);
    let visible = rng.chance(1, 2);
    let spy = SpyTerm::new(60, 20, false);
    spy.state().snap_on_flush = false;
    let init_len = match rng.below(4) {
        0 => None,
        1 => Some(0),
        2 => Some(rng.u64_biased()),
        _ => Some(rng.range(1, 1000)),
    };
    let target = if visible { ProgressDrawTarget::term_like(spy.boxed()) } else { ProgressDrawTarget::hidden() };
    let on_finish = rng.below(5);
    let completing = on_finish < 3;
    let pb = ProgressBar::with_draw_target(init_len, target)
        .with_style(ProgressStyle::with_template("{pos}/{len} {percent}% {bar:10} {eta} {per_sec} {bytes}/{total_bytes} {human_pos}").unwrap())
        .with_finish(match on_finish {
            0 => indicatif::ProgressFinish::AndLeave,
            1 => indicatif::ProgressFinish::WithMessage("done".into()),
            2 => indicatif::ProgressFinish::AndClear,
            3 => indicatif::ProgressFinish::Abandon,
            _ => indicatif::ProgressFinish::AbandonWithMessage("left".into()),
        });
    let mut pos: u64 = 0;
    let mut len: Option<u64> = init_len;
    let mut finished = false;
    let n = rng.range(3, 40);
    let mut ops: Vec<Op> = Vec::new();
    let mut co = CaseOut::held(0, true);
    for step in 0..n {
        let op = match rng.below(17) {
            16 => Op::WithPos(rng.u64_biased()),
            0 | 1 => Op::Inc(rng.u64_biased()),
            2 => Op::Dec(rng.u64_biased()),
            3 | 4 => Op::SetPos(rng.u64_biased()),
            5 => Op::SetLen(rng.u64_biased()),
            6 => Op::IncLen(rng.u64_biased()),
            7 => Op::DecLen(rng.u64_biased()),
            8 => Op::UnsetLen,
            9 => rng.pick(&[Op::Reset, Op::Reset, Op::ResetEta, Op::ResetElapsed]).clone(),
            10 => rng.pick(&[Op::Finish, Op::FinishClear, Op::Abandon, Op::AbandonMsg, Op::FinishMsg, Op::FinishStyle, Op::FinishStyle]).clone(),
            11 => Op::UpdateSetPos(rng.u64_biased()),
            12 => Op::UpdateSetLen(rng.u64_biased()),
            13 => Op::Tick,
            _ => Op::Advance(rng.range(0, 3_000_000_000)),
        };
        ops.push(op.clone());
        // model
        match &op {
            Op::Inc(d) => pos = pos.wrapping_add(*d),
            Op::Dec(d) => pos = pos.wrapping_sub(*d),
            Op::SetPos(p) | Op::UpdateSetPos(p) | Op::WithPos(p) => pos = *p,
            Op::SetLen(l) | Op::UpdateSetLen(l) => len = Some(*l),
            Op::IncLen(d) => len = len.map(|l| l.saturating_add(*d)),
            Op::DecLen(d) => len = len.map(|l| l.saturating_sub(*d)),
            Op::UnsetLen => len = None,
            Op::Reset => {
                pos = 0;
                finished = false;
            }
            Op::Finish | Op::FinishClear | Op::FinishMsg => {
                if let Some(l) = len {
                    pos = l;
                }
                finished = true;
            }
            Op::Abandon | Op::AbandonMsg => finished = true,
            Op::FinishStyle => {
                if completing {
                    if let Some(l) = len {
                        pos = l;
                    }
                }
                finished = true;
            }
            Op::Tick | Op::ResetEta | Op::ResetElapsed => {}
            Op::Advance(ns) => {
                clock.fetch_add(*ns, Ordering::SeqCst);
            }
        }
        let mut fraction = f32::NAN;
        // the call goes through the original handle, a clone, or a handle upgraded from a weak reference
        let via = rng.below(4);
        let r = catch_unwind(AssertUnwindSafe(|| {
            let handle = match via {
                0 => pb.clone(),
                1 => pb.downgrade().upgrade().expect("upgrade() of a weak handle to a live bar returned None"),
                _ => pb.clone(),
            };
            let pb = &handle;
            match &op {
                Op::Inc(d) => pb.inc(*d),
                Op::Dec(d) => pb.dec(*d),
                Op::SetPos(p) => pb.set_position(*p),
                Op::WithPos(p) => drop(pb.clone().with_position(*p)),
                Op::SetLen(l) => pb.set_length(*l),
                Op::IncLen(d) => pb.inc_length(*d),
                Op::DecLen(d) => pb.dec_length(*d),
                Op::UnsetLen => pb.unset_length(),
                Op::Reset => pb.reset(),
                Op::ResetEta => pb.reset_eta(),
                Op::ResetElapsed => pb.reset_elapsed(),
                Op::Finish => pb.finish(),
                Op::FinishClear => pb.finish_and_clear(),
                Op::Abandon => pb.abandon(),
                Op::AbandonMsg => pb.abandon_with_message("gave up"),
                Op::FinishMsg => pb.finish_with_message("done"),
                Op::FinishStyle => pb.finish_using_style(),
                Op::UpdateSetPos(p) => pb.update(|s| s.set_pos(*p)),
                Op::UpdateSetLen(l) => pb.update(|s| s.set_len(*l)),
                Op::Tick => pb.tick(),
                Op::Advance(_) => {}
            }
            pb.update(|s| fraction = s.fraction());
            // exercise the derived getters as well (must not panic)
            let _ = (pb.eta(), pb.per_sec(), pb.duration(), pb.elapsed());
            (pb.position(), pb.length(), pb.is_finished())
        }));
        let w = || J::obj().with("initial_length", init_len).with("with_finish", ["AndLeave", "WithMessage", "AndClear", "Abandon", "AbandonWithMessage"][on_finish as usize]).with("visible", visible).with("ops", J::Arr(ops.iter().map(|o| J::from(format!("{o:?}"))).collect()));
        let feats = vec![op_class(&op).to_string()];
        match r {
            Err(p) => {
                std::mem::forget(pb);
                co.verdict = viol("panic", feats, format!("step {step} {op:?} panicked: {}", crate::world::panic_message(&p)), w(), replay);
                co.hash = fnv1a(format!("{ops:?}").as_bytes());
                indicatif::verif_hooks::install(None);
                return co;
            }
            Ok((gp, gl, gf)) => {
                let bad = if gp != pos {
                    Some(("position", format!("position() = {gp}, model {pos}")))
                } else if gl != len {
                    Some(("length", format!("length() = {gl:?}, model {len:?}")))
                } else if gf != finished {
                    Some(("finished", format!("is_finished() = {gf}, model {finished}")))
                } else if !(0.0..=1.0).contains(&fraction) {
                    Some(("fraction-range", format!("fraction = {fraction}")))
                } else if len == Some(0) && fraction != 1.0 {
                    Some(("fraction-zero-length", format!("fraction = {fraction} for length 0")))
                } else if len.is_none() && fraction != 0.0 {
                    Some(("fraction-unknown-length", format!("fraction = {fraction} for unknown length")))
                } else {
                    None
                };
                if let Some((rule, d)) = bad {
                    co.verdict = viol(rule, feats, format!("after step {step} {op:?}: {d}"), w(), replay);
                    co.hash = fnv1a(format!("{ops:?}").as_bytes());
                    pb.abandon();
                    indicatif::verif_hooks::install(None);
                    return co;
                }
            }
        }
        co.see("op_kinds", fnv1a(op_class(&op).as_bytes()));
    }
    co.hash = fnv1a(format!("{init_len:?}{ops:?}").as_bytes());
    co.count("getter_comparisons", n * 4);
    co.count("sequential_ops", n);
    if idx < 2 {
        co.sample = Some(J::obj().with("initial_length", init_len).with("ops", J::Arr(ops.iter().take(12).map(|o| J::from(format!("{o:?}"))).collect())));
    }
    pb.abandon();
    // once the last strong handle is gone a weak handle must not resurrect the bar
    let weak = pb.downgrade();
    let alive_before = weak.upgrade().is_some();
    drop(pb);
    if !alive_before || weak.upgrade().is_some() {
        co.verdict = viol(
            "weak-handle",
            vec!["weak".into()],
            format!("WeakProgressBar::upgrade: {} while a handle was alive, {} after the last handle was dropped", if alive_before { "Some" } else { "None" }, if weak.upgrade().is_some() { "Some" } else { "None" }),
            J::from("weak handle life cycle"),
            replay,
        );
    }
    indicatif::verif_hooks::install(None);
    co
}

/// Real threads hammering inc/dec on clones: conservation of the wrapping sum, monotone reads.
fn concurrent_case(seed: u64, idx: u64, heavy: bool) -> CaseOut {
    let mut rng = Rng::derive(seed, 707, idx);
    let replay = format!("c{seed}:{idx}");
    let threads = rng.range(2, 16) as usize;
    let ops_per = if heavy { rng.range(1_000, 100_000) } else { rng.range(100, 5_000) };
    let inc_only = rng.chance(1, 2);
    let target_kind = rng.below(3);
    let ticker = rng.chance(1, 4);
    let spy = SpyTerm::new(40, 10, false);
    spy.state().snap_on_flush = false;
    let target = match target_kind {
        0 => ProgressDrawTarget::hidden(),
        1 => ProgressDrawTarget::term_like(spy.boxed()),
        _ => ProgressDrawTarget::term_like_with_hz(spy.boxed(), 20),
    };
    let start = if rng.chance(1, 3) { u64::MAX - rng.range(0, 1000) } else { rng.range(0, 1000) };
    let pb = ProgressBar::with_draw_target(Some(1_000_000), target).with_position(start);
    if ticker {
        pb.enable_steady_tick(Duration::from_millis(1));
    }
    let foreign_seen = Arc::new(AtomicU64::new(0));
    let handles: Vec<_> = (0..threads)
        .map(|t| {
            let clones: Vec<ProgressBar> = (0..rng.range(1, 3)).map(|_| pb.clone()).collect();
            let mut trng = Rng::derive(seed, 7070 + t as u64, idx);
            let foreign = foreign_seen.clone();
            std::thread::spawn(move || {
                let mut net: u64 = 0; // wrapping sum of this thread's deltas
                let mut last_read = 0u64;
                let mut regress = None;
                for i in 0..ops_per {
                    let h = &clones[(i % clones.len() as u64) as usize];
                    let d = match trng.below(4) {
                        0 => 0,
                        1 => 1,
                        2 => trng.range(0, 1000),
                        _ => trng.u64_biased() >> 20,
                    };
                    if inc_only || trng.chance(2, 3) {
                        net = net.wrapping_add(d);
                        h.inc(d);
                    } else {
                        net = net.wrapping_sub(d);
                        h.dec(d);
                    }
                    if i % 16 == 0 {
                        let p = h.position();
                        if inc_only && p.wrapping_sub(last_read) > u64::MAX / 2 && i > 0 {
                            regress = Some((last_read, p));
                        }
                        if p != last_read {
                            foreign.fetch_add(1, Ordering::Relaxed);
                        }
                        last_read = p;
                    }
                }
                (net, regress)
            })
        })
        .collect();
    let mut total = start;
    let mut regress = None;
    let mut panicked = false;
    for h in handles {
        match h.join() {
            Ok((net, r)) => {
                total = total.wrapping_add(net);
                regress = regress.or(r);
            }
            Err(_) => panicked = true,
        }
    }
    if ticker {
        pb.disable_steady_tick();
    }
    let got = pb.position();
    let w = J::obj().with("threads", threads).with("ops_per_thread", ops_per).with("inc_only", inc_only).with("target", target_kind).with("steady_tick", ticker).with("start", start);
    let mut co = CaseOut::held(fnv1a(format!("{threads}{ops_per}{inc_only}{target_kind}{ticker}{idx}").as_bytes()), true);
    if panicked {
        co.verdict = viol("panic", vec!["concurrent".into()], "a worker thread panicked".into(), w.clone(), replay.clone());
    } else if got != total {
        co.verdict = viol(
            "lost-update",
            vec!["concurrent".into()],
            format!("position() = {got} after all threads joined, the wrapping sum of all increments and decrements is {total} (difference {})", total.wrapping_sub(got)),
            w.clone(),
            replay.clone(),
        );
    } else if let Some((a, b)) = regress {
        co.verdict = viol("position-went-backwards", vec!["concurrent".into()], format!("a thread read {a} and later {b} in an inc-only run"), w.clone(), replay);
    }
    co.count("concurrent_ops", threads as u64 * ops_per);
    co.count("reads_that_observed_foreign_updates", foreign_seen.load(Ordering::Relaxed));
    co.count("frames_painted_during_concurrent_runs", spy.flushes());
    co.max("threads", threads as u64);
    if idx < 2 {
        co.sample = Some(w);
    }
    pb.abandon();
    co
}

/// Real threads on the *length*: inc_length/dec_length are read-modify-write operations on state behind
/// the bar's lock, so whatever the interleaving the final length is the initial one plus the sum of all
/// deltas (no saturation can occur with these values); a single `unset_length` from one of the threads
/// makes the final length unknown for good (later inc/dec leave an unknown length unknown).
fn concurrent_length_case(seed: u64, idx: u64, heavy: bool) -> CaseOut {
    let mut rng = Rng::derive(seed, 717, idx);
    let replay = format!("n{seed}:{idx}");
    let threads = rng.range(2, 8) as usize;
    let ops_per = if heavy { rng.range(500, 20_000) } else { rng.range(100, 2_000) };
    let inc_only = rng.chance(1, 3);
    let with_unset = rng.chance(1, 3);
    let target_kind = rng.below(3);
    let spy = SpyTerm::new(40, 10, false);
    spy.state().snap_on_flush = false;
    let target = match target_kind {
        0 => ProgressDrawTarget::hidden(),
        1 => ProgressDrawTarget::term_like(spy.boxed()),
        _ => ProgressDrawTarget::term_like_with_hz(spy.boxed(), 20),
    };
    let len0: u64 = 1 << 40;
    let pb = ProgressBar::with_draw_target(Some(len0), target);
    let unset_at = rng.range(0, ops_per - 1);
    let handles: Vec<_> = (0..threads)
        .map(|t| {
            let h = pb.clone();
            let mut trng = Rng::derive(seed, 7170 + t as u64, idx);
            std::thread::spawn(move || {
                let mut net: i64 = 0;
                let mut last = 0u64;
                let mut regress = None;
                for i in 0..ops_per {
                    if with_unset && t == 0 && i == unset_at {
                        h.unset_length();
                        continue;
                    }
                    let d = trng.range(0, 100);
                    if inc_only || trng.chance(1, 2) {
                        net += d as i64;
                        h.inc_length(d);
                    } else {
                        net -= d as i64;
                        h.dec_length(d);
                    }
                    if i % 8 == 0 {
                        if let Some(l) = h.length() {
                            if inc_only && !with_unset && l < last {
                                regress = Some((last, l));
                            }
                            last = l;
                        }
                    }
                }
                (net, regress)
            })
        })
        .collect();
    let mut total: i64 = 0;
    let mut regress = None;
    let mut panicked = false;
    for h in handles {
        match h.join() {
            Ok((net, r)) => {
                total += net;
                regress = regress.or(r);
            }
            Err(_) => panicked = true,
        }
    }
    let got = pb.length();
    let want = if with_unset { None } else { Some((len0 as i64 + total) as u64) };
    let w = J::obj()
        .with("threads", threads)
        .with("ops_per_thread", ops_per)
        .with("inc_only", inc_only)
        .with("one_unset_length", with_unset)
        .with("target", target_kind)
        .with("initial_length", len0.to_string());
    let mut co = CaseOut::held(fnv1a(format!("len{threads}{ops_per}{inc_only}{with_unset}{target_kind}{idx}").as_bytes()), true);
    let feats = vec!["concurrent".to_string(), "length".to_string()];
    if panicked {
        co.verdict = viol("panic", feats, "a worker thread panicked".into(), w.clone(), replay.clone());
    } else if got != want {
        co.verdict = viol(
            "lost-update",
            feats,
            format!(
                "length() = {got:?} after all threads joined; {}",
                if with_unset { "one thread called unset_length() and nobody set a length afterwards, so it must be unknown".to_string() } else { format!("the initial length plus all inc_length/dec_length deltas is {want:?}") }
            ),
            w.clone(),
            replay.clone(),
        );
    } else if let Some((a, b)) = regress {
        co.verdict = viol("length-went-backwards", feats, format!("a thread read length {a} and later {b} in an inc_length-only run"), w.clone(), replay);
    }
    co.count("concurrent_length_ops", threads as u64 * ops_per);
    co.count("frames_painted_during_concurrent_runs", spy.flushes());
    pb.abandon();
    co
}

pub fn run(cfg: &RunCfg) -> PropResult {
    let report = if let Some(case) = &cfg.case {
        let conc = case.starts_with('c');
        let mut it = case[1..].split(':');
        let seed: u64 = it.next().and_then(|s| s.parse().ok()).unwrap_or(cfg.seed);
        let idx: u64 = it.next().and_then(|s| s.parse().ok()).unwrap_or(0);
        let mut r = crate::report::Report::default();
        r.add(idx, if case.starts_with('n') { concurrent_length_case(seed, idx, cfg.thorough) } else if conc { concurrent_case(seed, idx, cfg.thorough) } else { sequential_case(seed, idx) });
        r
    } else {
        let ns = if cfg.thorough { 3_000_000 } else { 60_000 };
        let nc = if cfg.thorough { 4_000 } else { 150 };
        let mut r = crate::report::run_parallel_tagged('s', ns, workers(), |i| sequential_case(cfg.seed, i));
        // concurrent cases bring their own threads: run a few at a time
        r.merge(crate::report::run_parallel_tagged('c', nc, 3, |i| concurrent_case(cfg.seed, i, cfg.thorough)));
        let nn = if cfg.thorough { 3_000 } else { 120 };
        r.merge(crate::report::run_parallel_tagged('n', nn, 4, |i| concurrent_length_case(cfg.seed, i, cfg.thorough)));
        r
    };
    PropResult {
        report,
        rule: "sequential evaluations: 3-40 operations (inc/dec/set_position/set_length/inc_length/dec_length/unset_length/reset/reset_eta/reset_elapsed/finish*/abandon/finish_using_style (every ProgressFinish, repeatedly)/update(set_pos|set_len)/tick, virtual time passing) with boundary-biased u64 arguments on hidden and visible bars, issued through the handle itself, clones and handles upgraded from WeakProgressBar, getters and fraction compared with a wrapping/saturating model after every step; concurrent evaluations: 2-16 OS threads x 1-3 clones x 100-100000 inc/dec calls on one bar (hidden, unlimited and 20 Hz spy targets, optional 1 ms steady ticker), conservation of the wrapping sum after join and monotone reads in inc-only runs; 2-8 threads x 100-20000 inc_length/dec_length calls (optionally one unset_length), final length = initial + sum of deltas (or unknown), monotone length reads in inc-only runs; distinct = operation list hash / run parameters".into(),
        exhaustive: false,
    }
}
