#!/usr/bin/env python3
"""Regenerates /verif/MANIFEST.json from the tables below (kept in one place so that the
manifest is always schema-valid)."""
import json, os, subprocess, sys
ROOT = os.path.dirname(os.path.dirname(os.path.abspath(__file__)))
sys.path.insert(0, os.path.join(ROOT, "driver"))
from lanes import LANES, LEVELS
from claims import CLAIMS, NOT_APPLICABLE

hooks_commits = subprocess.run(["git", "-C", "/repo", "log", "--format=%H %s"], stdout=subprocess.PIPE, text=True).stdout.splitlines()
hook_shas = [l.split()[0] for l in hooks_commits if l.split(" ", 1)[1].startswith("hooks:")]

checks = []
for pid in sorted(CLAIMS):
    c = CLAIMS[pid]
    checks.append({
        "property_id": pid,
        "quick_cmd": f"./check {pid} --tier quick",
        "thorough_cmd": f"./check {pid} --tier thorough",
        "evidence_file": f"/verif/evidence/{pid}.json",
        "replay_cmd_template": f"./check {pid} --replay {{path}}",
        "engine": "vh",
        "level_claimed": {"category": LEVELS.get(pid, "exploration"), "text": c["text"], "design_ref": c["design_ref"]},
        "level_note": c["note"],
        "technique": c["technique"],
    })

manifest = {
    "version": 1,
    "setup_cmd": "./setup.sh",
    "hooks": {
        "guard": "cargo feature verif-hooks (off by default)",
        "enable": "the harness crates depend on indicatif = { path = \"/repo\", features = [\"verif-hooks\"] }; every check runs `cargo build --offline` first, so /repo's current working tree is recompiled",
        "baseline_off_cmd": "cd /repo && cargo test --workspace --no-fail-fast --offline",
        "source_commits": hook_shas,
        "add_only": True,
    },
    "engines": [
        {"name": "vh", "path": "/verif/harness", "serves_properties": sorted(CLAIMS),
         "kind_free_text": "Rust harness: spy terminal + VScreen emulator (cross-checked with vt100), shadow models, seeded history generators, delta-debugging shrinker, 16-worker pool; virtual clock and lock/thread event shim from the verif-hooks feature"},
        {"name": "check", "path": "/verif/check", "serves_properties": sorted(CLAIMS),
         "kind_free_text": "Python driver: builds, runs lanes, matches violations against known_findings.json, writes evidence and replay files"},
    ],
    "checks": checks,
    "not_applicable": [{"property_id": k, "reason": v} for k, v in sorted(NOT_APPLICABLE.items())],
    "notes": "Runtime monitoring: every verdict is an oracle observing executions of the real code in /repo. exit 0 = held on what was explored, 1 = violation not listed in known_findings.json, 2 = inconclusive (never folded into either). See DESIGN.md.",
}
with open(os.path.join(ROOT, "MANIFEST.json"), "w") as f:
    json.dump(manifest, f, indent=1)
print("MANIFEST.json written:", len(checks), "checks,", len(manifest["not_applicable"]), "not_applicable")
