"""Per-property lane tables for the driver.

A lane is one run of the harness binary `vh` (or of a helper script) that writes a result JSON.
  profile: release | debug      (debug = overflow checks and debug_assert on)
  sub:     sub-command passed to vh (defaults to the property id)
"""

REL = {"name": "native-release", "profile": "release"}
DBG = {"name": "native-debug", "profile": "debug"}

LANES = {
    "C01": [dict(REL)],
    "C02": [dict(REL)],
    "C03": [dict(REL)],
    "C04": [dict(REL)],
    "C19": [dict(REL)],
    "C15": [dict(REL), dict(DBG)],
    "C12": [dict(REL)],
    "C10": [dict(REL), dict(DBG)],
    "C05": [dict(REL)],
    "C09": [dict(REL)],
    "C11": [dict(REL)],
    "C16": [dict(REL)],
    "C06": [dict(REL)],
    "C18": [dict(REL), dict(DBG)],
    "C17": [{"name": "adaptors-release", "profile": "release", "package": "harness-adapt", "bin": "vh-adapt"}],
    "C07": [dict(REL), dict(DBG), {"name": "miri", "profile": "miri", "kind": "script", "script": "miri_lane.py", "timeout": 14400}],
    "C08": [dict(REL), {"name": "miri", "profile": "miri", "kind": "script", "script": "miri_lane.py", "timeout": 14400}],
    "C13": [dict(REL), {"name": "improved-unicode-release", "profile": "release", "package": "harness-adapt", "bin": "vh-adapt"}],
    "C14": [dict(REL), dict(DBG)],
}

LEVELS = {
    "C18": "fault_enumeration",
}

ASSUMPTIONS = {
    "*": [
        "coverage is what the seeded generators reach; nothing is proved",
        "terminal semantics are those of the harness's VScreen model (xterm-like deferred wrap), cross-checked against the vt100 crate at every flush",
        "the reference models in /verif/harness are trusted after triage of every alarm on the unchanged tree",
    ],
    "C01": ["double-width characters are generated only in a dedicated lane (known finding)"],
}
