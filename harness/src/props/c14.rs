//! C14: every style the builder accepts can be rendered without panicking.

use super::{PropResult, RunCfg};
use crate::json::J;
use crate::prng::{fnv1a, Rng};
use crate::rend::{last_frame_lines, new_bar};
use crate::report::{run_parallel, workers, CaseOut, Verdict, Violation};
use indicatif::{ProgressState, ProgressStyle};
use std::fmt::Write;
use std::panic::{catch_unwind, AssertUnwindSafe};

#[derive(Clone, Debug)]
enum Build {
    TickChars(String),
    TickStrings(Vec<String>),
    ProgressChars(String),
    WithKey,
    Template(String),
}

const ZW: char = '\u{200b}'; // zero width space

fn gen_build(rng: &mut Rng) -> Build {
    let pool: Vec<char> = vec!['a', 'b', '-', '#', '>', ' ', '█', '░', '世', '界', ZW, '\u{301}', '⠁', '⠂'];
    match rng.below(5) {
        0 => {
            let n = *rng.pick(&[0usize, 1, 2, 3, 5, 30]);
            Build::TickChars((0..n).map(|_| *rng.pick(&pool)).collect())
        }
        1 => {
            let n = *rng.pick(&[0usize, 1, 1, 2, 3, 8]);
            Build::TickStrings(
                (0..n)
                    .map(|_| match rng.below(4) {
                        0 => String::new(),
                        1 => "ab".to_string(),
                        2 => "世".to_string(),
                        _ => rng.pick(&pool).to_string(),
                    })
                    .collect(),
            )
        }
        2 => {
            let n = rng.range(0, 10) as usize;
            let class = rng.below(4);
            Build::ProgressChars(
                (0..n)
                    .map(|_| match class {
                        0 => *rng.pick(&['#', '>', '-', '=', ' ', '█', '░']), // all 1 column
                        1 => *rng.pick(&['世', '界', '日']),                  // all 2 columns
                        2 => *rng.pick(&[ZW, '\u{301}']),                      // all 0 columns
                        _ => *rng.pick(&pool),                                  // mixed
                    })
                    .collect(),
            )
        }
        3 => Build::WithKey,
        _ => Build::Template(
            rng.pick(&[
                "{spinner} {msg}",
                "{bar:10} {pos}/{len}",
                "{wide_bar}",
                "{spinner}{bar:5.red/blue}{wide_msg}",
                "{prefix:>5!} {percent}% {eta} {per_sec} {bytes}",
                "{bar:0}|{bar:1}|{bar:2}",
                "{custom} {spinner:.green}",
                "",
            ])
            .to_string(),
        ),
    }
}

fn arg_class(b: &Build) -> String {
    match b {
        Build::TickChars(s) => format!("tick_chars:{}", s.chars().count().min(3)),
        Build::TickStrings(v) => format!("tick_strings:{}", v.len().min(3)),
        Build::ProgressChars(s) => {
            use unicode_width::UnicodeWidthChar;
            let widths: Vec<usize> = s.chars().map(|c| c.width().unwrap_or(0)).collect();
            let kind = if widths.is_empty() {
                "none"
            } else if widths.iter().all(|w| *w == 0) {
                "zero-width"
            } else if widths.iter().all(|w| *w == widths[0]) {
                "equal-width"
            } else {
                "mixed-width"
            };
            format!("progress_chars:{}:{kind}", widths.len().min(3))
        }
        Build::WithKey => "with_key".into(),
        Build::Template(_) => "template".into(),
    }
}

fn apply(style: ProgressStyle, b: &Build) -> Result<ProgressStyle, String> {
    let b = b.clone();
    catch_unwind(AssertUnwindSafe(move || match b {
        Build::TickChars(s) => style.tick_chars(&s),
        Build::TickStrings(v) => {
            let refs: Vec<&str> = v.iter().map(|s| s.as_str()).collect();
            style.tick_strings(&refs)
        }
        Build::ProgressChars(s) => style.progress_chars(&s),
        Build::WithKey => style.with_key("custom", |st: &ProgressState, w: &mut dyn Write| {
            let _ = write!(w, "<{}>", st.pos());
        }),
        Build::Template(t) => style.template(&t).unwrap(),
    }))
    .map_err(|p| crate::world::panic_message(&p))
}

fn run_case(seed: u64, idx: u64) -> CaseOut {
    let mut rng = Rng::derive(seed, 14, idx);
    let replay = format!("{seed}:{idx}");
    let base = rng.pick(&["{spinner} {msg} {bar:12} {pos}/{len}", "{spinner}{wide_bar}", "{bar:7}{spinner}{wide_msg}"]).to_string();
    let n_builds = rng.range(1, 3);
    let builds: Vec<Build> = (0..n_builds).map(|_| gen_build(&mut rng)).collect();
    let mut co = CaseOut::held(fnv1a(format!("{base}{builds:?}").as_bytes()), true);
    let witness = J::obj().with("base_template", base.clone()).with("builder_calls", J::Arr(builds.iter().map(|b| J::from(format!("{b:?}"))).collect()));
    let mut style = ProgressStyle::with_template(&base).unwrap();
    let mut last_class = String::from("none");
    for b in &builds {
        last_class = arg_class(b);
        match apply(style, b) {
            Ok(s) => style = s,
            Err(_msg) => {
                co.count("rejected_at_build_time", 1);
                co.see("rejected_classes", fnv1a(last_class.as_bytes()));
                return co; // explicit rejection when the style is built: fine
            }
        }
    }
    co.count("styles_accepted", 1);
    co.see("accepted_classes", fnv1a(builds.iter().map(arg_class).collect::<Vec<_>>().join("+").as_bytes()));
    let classes: Vec<String> = builds.iter().map(arg_class).collect();
    // ---- tick strings for every tick value ------------------------------------------------------
    for t in [0u64, 1, 2, 3, 29, 30, 31, u32::MAX as u64, u32::MAX as u64 + 1, u64::MAX - 1, u64::MAX, rng.next_u64()] {
        let st = style.clone();
        if let Err(p) = catch_unwind(AssertUnwindSafe(move || {
            let _ = st.get_tick_str(t).len();
            let _ = st.get_final_tick_str().len();
        })) {
            co.verdict = Verdict::Violated(Box::new(Violation {
                rule: "render-panic".into(),
                features: classes.clone(),
                detail: format!("accepted style panics in get_tick_str({t}): {}", crate::world::panic_message(&p)),
                witness,
                replay,
            }));
            return co;
        }
    }
    // ---- draws ------------------------------------------------------------------------------------
    let mut draws = 0u64;
    for width in [1u16, 2, 10, 80] {
        for (len, pos) in [(Some(10u64), 0u64), (Some(10), 5), (Some(10), 10), (Some(10), 15), (None, 3), (Some(0), 0)] {
            let (pb, spy) = new_bar(width, 60000, len);
            let st = style.clone();
            let r = catch_unwind(AssertUnwindSafe(|| {
                pb.set_style(st);
                pb.set_position(pos);
                pb.set_message("msg");
                for _ in 0..3 {
                    pb.tick();
                }
                pb.force_draw();
                let n = last_frame_lines(&spy).len();
                pb.finish();
                n
            }));
            match r {
                Ok(_) => {
                    draws += 1;
                }
                Err(p) => {
                    std::mem::forget(pb);
                    co.verdict = Verdict::Violated(Box::new(Violation {
                        rule: "render-panic".into(),
                        features: classes.clone(),
                        detail: format!(
                            "style was accepted by the builder but drawing it (width {width}, len {len:?}, pos {pos}) panicked: {}",
                            crate::world::panic_message(&p)
                        ),
                        witness,
                        replay,
                    }));
                    return co;
                }
            }
        }
    }
    co.count("draws_without_panic", draws);
    if idx < 3 {
        co.sample = Some(witness);
    }
    co
}

pub fn run(cfg: &RunCfg) -> PropResult {
    console::set_colors_enabled(false);
    let report = if let Some(case) = &cfg.case {
        let mut it = case.split(':');
        let seed: u64 = it.next().and_then(|s| s.parse().ok()).unwrap_or(cfg.seed);
        let idx: u64 = it.next().and_then(|s| s.parse().ok()).unwrap_or(0);
        let mut r = crate::report::Report::default();
        r.add(idx, run_case(seed, idx));
        r
    } else {
        let n = if cfg.thorough { 1_000_000 } else { 20_000 };
        run_parallel(n, workers(), |i| run_case(cfg.seed, i))
    };
    PropResult {
        report,
        rule: "each evaluation: 1-3 builder calls (tick_chars with 0/1/2/3/5/30 characters, tick_strings with 0/1/2/3/8 strings incl. empty and multi-column ones, progress_chars with 0..10 clusters of equal / mixed / zero width, with_key, template) on a base style; a build-time panic is an accepted rejection; an accepted style is then asked for its tick strings at 12 tick values up to u64::MAX and drawn for 6 states x 4 terminal widths with 3 ticks each, every step under catch_unwind; distinct = hash of (base template, builder calls)".into(),
        exhaustive: false,
    }
}
