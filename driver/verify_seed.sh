#!/bin/bash
# usage: verify_seed.sh <agent-worktree> <seed-id> [cargo features for the demo]
# Confirms in a fresh scratch worktree: demo passes on the unmodified tree, patch applies, crate builds,
# the 48 baseline tests pass with the patch, demo fails with the patch. Then stores the seed under /verif/seeded/<id>/.
set -u
src=$1; id=$2; feats=${3:-}
wt=/tmp/vs-$id
git -C /repo worktree remove --force $wt 2>/dev/null
git -C /repo worktree add -q $wt HEAD || exit 2
export CARGO_TARGET_DIR=$wt/target CARGO_NET_OFFLINE=true
cp $src/seeded/seeded_demo.rs $wt/tests/seeded_demo.rs
cd $wt
fa=""; [ -n "$feats" ] && fa="--features $feats"
echo "--- demo on unmodified tree"; timeout 900 cargo test --offline $fa --test seeded_demo 2>&1 | grep -E "^test result|error" | head -3; r0=${PIPESTATUS[0]}
git apply $src/seeded/patch.diff || { echo "PATCH DOES NOT APPLY"; exit 3; }
git diff --stat -- src | tail -3
echo "--- build + baseline with patch"; cargo build --offline 2>&1 | grep -E "^error" | head -3
mv tests/seeded_demo.rs /tmp/seeded_demo_$id.rs
cargo test --offline 2>&1 | grep -E "^test result|FAILED" | head -4
mv /tmp/seeded_demo_$id.rs tests/seeded_demo.rs
echo "--- demo with patch"; timeout 900 cargo test --offline $fa --test seeded_demo 2>&1 | grep -E "^test result|error\[" | head -3; r1=${PIPESTATUS[0]}
echo "demo rc without patch=$r0 with patch=$r1"
mkdir -p /verif/seeded/$id
cp $src/seeded/patch.diff /verif/seeded/$id/patch.diff
cp $src/seeded/seeded_demo.rs /verif/seeded/$id/seeded_demo.rs
cp $src/seeded/NOTES.md /verif/seeded/$id/NOTES.md 2>/dev/null
cd /; git -C /repo worktree remove --force $wt
