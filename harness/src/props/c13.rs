//! C13: progress-bar geometry. Cells are read back from the raw bar text handed to the terminal.

use super::{PropResult, RunCfg};
use crate::json::J;
use crate::prng::{fnv1a, Rng};
use crate::rend::{last_frame_lines, new_bar};
use crate::report::{run_parallel, workers, CaseOut, Verdict, Violation};
use crate::vscreen::cols_of;
use indicatif::ProgressStyle;
use std::panic::{catch_unwind, AssertUnwindSafe};
use unicode_width::UnicodeWidthStr;

/// progress character sets: 2..=10 clusters of equal width (1 or 2 columns)
pub const CHARSETS: [&str; 18] = [
    "#-", "#>-", "█░", "=>-", "█▉▊▋▌▍▎▏  ", "█▓▒░ ", "abcdefghij", "*+.", "01", "#=-.",
    "世界", "世日界", "日本語世界", "■□", "█▇▆▅▄▃▂▁ ", "OoX.", "ab", "xyzw-",
];

fn clusters(s: &str) -> Vec<String> {
    s.chars().map(|c| c.to_string()).collect()
}

struct Law {
    cells: usize,
    filled: usize,
    partial: Option<String>,
}

/// Parse the rendered bar into (filled run, optional partial cell, background run).
fn parse_bar(text: &str, chars: &[String]) -> Result<Law, String> {
    let cl: Vec<String> = clusters(text);
    let n = chars.len();
    let filled_ch = &chars[0];
    let bg = &chars[n - 1];
    let mut i = 0;
    while i < cl.len() && &cl[i] == filled_ch {
        i += 1;
    }
    let filled = i;
    let mut partial = None;
    if i < cl.len() && &cl[i] != bg {
        if n >= 3 && chars[1..n - 1].contains(&cl[i]) {
            partial = Some(cl[i].clone());
            i += 1;
        } else {
            return Err(format!("cell {i} is {:?}, which is not one of the configured progress characters", cl[i]));
        }
    }
    while i < cl.len() {
        if &cl[i] != bg {
            return Err(format!("cell {i} is {:?} where only background cells may follow", cl[i]));
        }
        i += 1;
    }
    Ok(Law { cells: cl.len(), filled, partial })
}

fn viol(rule: &str, feats: Vec<String>, detail: String, w: J, replay: String) -> Verdict {
    Verdict::Violated(Box::new(Violation { rule: rule.into(), features: feats, detail, witness: w, replay }))
}

struct BarCtx {
    pb: indicatif::ProgressBar,
    spy: crate::spy::SpyTerm,
    chars: Vec<String>,
    cw: usize,
    n: usize,
    set: usize,
}

/// One (charset, N): render for a (len, pos) and check the static laws; returns filled count.
fn check_one(b: &BarCtx, len: Option<u64>, pos: u64, replay: &str) -> Result<(usize, usize), Verdict> {
    let feats = vec![format!("chars-{}", b.chars.len()), format!("cell-width-{}", b.cw)];
    let w = J::obj().with("progress_chars", CHARSETS[b.set]).with("bar_width", b.n).with("len", len).with("pos", pos);
    let r = catch_unwind(AssertUnwindSafe(|| {
        match len {
            Some(l) => b.pb.set_length(l),
            None => b.pb.unset_length(),
        }
        b.pb.set_position(pos);
        b.spy.state().log = Some(Vec::new());
        b.pb.force_draw();
        last_frame_lines(&b.spy)
    }));
    let lines = match r {
        Ok(l) => l,
        Err(p) => {
            return Err(viol("panic", feats, format!("drawing {{bar:{}}} panicked: {}", b.n, crate::world::panic_message(&p)), w, replay.to_string()));
        }
    };
    // (the styled lane runs with colours on: the escape sequences take no room and are not part of the geometry)
    let mut text = console::strip_ansi_codes(&lines.first().cloned().unwrap_or_default()).to_string();
    let cells_want = b.n / b.cw;
    // the field is padded to N columns when the cells do not add up to N
    let pad = b.n - cells_want * b.cw;
    for _ in 0..pad {
        if text.ends_with(' ') && clusters(&text).len() > cells_want {
            text.pop();
        }
    }
    let law = match parse_bar(&text, &b.chars) {
        Ok(l) => l,
        Err(e) => return Err(viol("foreign-cell", feats, format!("{{bar:{}}} rendered {text:?}: {e}", b.n), w, replay.to_string())),
    };
    if law.cells != cells_want {
        return Err(viol("cell-count", feats, format!("{{bar:{}}} with {}-column cells has {} cells, expected {}: {text:?}", b.n, b.cw, law.cells, cells_want), w, replay.to_string()));
    }
    // filled law
    let cells = cells_want as u128;
    let (lo, hi): (usize, usize) = match len {
        None => (0, 0),
        Some(0) => (cells_want, cells_want),
        Some(l) if pos >= l => (cells_want, cells_want),
        Some(l) => {
            let num = pos as u128 * cells;
            let exact = (num / l as u128) as usize;
            // f32 arithmetic: when the exact value is within 1e-5 (relative to cells) of an integer
            // either neighbour is accepted
            let frac = (num % l as u128) as f64 / l as f64;
            let eps = 1e-5 * cells_want.max(1) as f64 + (pos as f64 / l as f64) * cells_want as f64 * 2e-7;
            let lo = if frac < eps && exact > 0 { exact - 1 } else { exact };
            let hi = if 1.0 - frac < eps { exact + 1 } else { exact };
            (lo, hi.min(cells_want))
        }
    };
    if law.filled < lo || law.filled > hi {
        return Err(viol("filled-count", feats, format!("{{bar:{}}} pos {pos} len {len:?}: {} filled cells, expected {lo}..={hi} of {cells_want}: {text:?}", b.n, law.filled), w, replay.to_string()));
    }
    if let Some(l) = len {
        if l > 0 && pos < l && l <= (1 << 24) && law.filled == cells_want && cells_want > 0 {
            return Err(viol("full-before-complete", feats, format!("{{bar:{}}} shows all {cells_want} cells filled at pos {pos} < len {l}", b.n), w, replay.to_string()));
        }
    }
    // partial cell: exactly when neither empty nor full (observable only with >= 3 characters)
    if b.chars.len() >= 3 && b.chars[1] != b.chars[b.chars.len() - 1] {
        let frac_pos = match len {
            None => false,
            Some(0) => false,
            Some(l) => pos > 0 && pos < l,
        };
        let expect_partial = frac_pos && law.filled < cells_want;
        // fill > 0 is a float condition: at tiny fractions the head may legitimately be absent
        if law.partial.is_some() && !frac_pos {
            return Err(viol("partial-cell-when-empty-or-full", feats, format!("{{bar:{}}} pos {pos} len {len:?} shows a partial cell {:?}: {text:?}", b.n, law.partial), w, replay.to_string()));
        }
        if expect_partial && law.partial.is_none() && cells_want > 0 {
            // the "current" character may coincide with the background in some sets
            let bg = &b.chars[b.chars.len() - 1];
            if !b.chars[1..b.chars.len() - 1].contains(bg) {
                return Err(viol("partial-cell-missing", feats, format!("{{bar:{}}} pos {pos} len {len:?}: no partial cell although the bar is neither empty nor full: {text:?}", b.n), w, replay.to_string()));
            }
        }
    }
    Ok((law.filled, cells_want))
}

fn make_bar(set: usize, n: usize) -> Result<BarCtx, String> {
    make_bar_with(set, n, "", "")
}

/// `{bar:<align>N<rest>}`, e.g. align ">" and rest "!.red/blue"
fn make_bar_with(set: usize, n: usize, align: &str, rest: &str) -> Result<BarCtx, String> {
    let chars = clusters(CHARSETS[set]);
    let cw = UnicodeWidthStr::width(chars[0].as_str());
    let template = format!("{{bar:{align}{n}{rest}}}");
    let style = catch_unwind(|| {
        ProgressStyle::with_template(&template).unwrap().progress_chars(CHARSETS[set])
    })
    .map_err(|p| crate::world::panic_message(&p))?;
    let (pb, spy) = new_bar(300, 60000, Some(1));
    pb.set_style(style);
    Ok(BarCtx { pb, spy, chars, cw, n, set })
}

fn exhaustive_case(set: usize, n: usize, max_len: u64, replay: String) -> CaseOut {
    let mut co = CaseOut::held(fnv1a(format!("{set}:{n}").as_bytes()), true);
    let b = match make_bar(set, n) {
        Ok(b) => b,
        Err(e) => {
            co.verdict = Verdict::Inconclusive(format!("style rejected: {e}"));
            return co;
        }
    };
    let mut bars = 0u64;
    for len in 0..=max_len {
        let mut prev = 0usize;
        for pos in 0..=len + 1 {
            match check_one(&b, Some(len), pos, &replay) {
                Ok((filled, _)) => {
                    if filled < prev {
                        co.verdict = viol(
                            "filled-not-monotone",
                            vec![format!("chars-{}", b.chars.len())],
                            format!("{{bar:{n}}} len {len}: filled cells went from {prev} to {filled} when pos grew to {pos}"),
                            J::obj().with("progress_chars", CHARSETS[set]).with("bar_width", n).with("len", len).with("pos", pos),
                            replay,
                        );
                        std::mem::forget(b);
                        return co;
                    }
                    if pos == 0 && filled != 0 && len > 0 {
                        co.verdict = viol("filled-at-zero", vec![], format!("{{bar:{n}}} len {len} pos 0 has {filled} filled cells"), J::Null, replay);
                        std::mem::forget(b);
                        return co;
                    }
                    prev = filled;
                    bars += 1;
                }
                Err(v) => {
                    co.verdict = v;
                    std::mem::forget(b);
                    return co;
                }
            }
        }
    }
    // unknown length
    if let Err(v) = check_one(&b, None, 5, &replay) {
        co.verdict = v;
        std::mem::forget(b);
        return co;
    }
    b.pb.abandon();
    co.count("bars_rendered_and_parsed", bars + 1);
    co.see("charsets", set as u64);
    co.see("bar_widths", n as u64);
    if n == 20 {
        co.sample = Some(J::obj().with("progress_chars", CHARSETS[set]).with("bar_width", n).with("lens", format!("0..={max_len}")).with("pos", "0..=len+1"));
    }
    co
}

fn sampled_case(seed: u64, idx: u64) -> CaseOut {
    let mut rng = Rng::derive(seed, 13, idx);
    let set = rng.usize(CHARSETS.len());
    let n = match rng.below(5) {
        0 => rng.range(65, 400) as usize,
        1 => *rng.pick(&[1000usize, 4096, 65535, 255, 256]),
        _ => rng.range(0, 64) as usize,
    };
    let replay = format!("s{seed}:{idx}");
    let mut co = CaseOut::held(fnv1a(format!("s{set}:{n}:{idx}").as_bytes()), true);
    let b = match make_bar(set, n) {
        Ok(b) => b,
        Err(e) => {
            co.verdict = Verdict::Inconclusive(format!("style rejected: {e}"));
            return co;
        }
    };
    let mut bars = 0;
    for _ in 0..20 {
        let len = match rng.below(5) {
            0 => None,
            1 => Some(rng.u64_biased()),
            2 => Some(1 << rng.range(20, 63)),
            _ => Some(rng.range(0, 100_000)),
        };
        let pos = match (rng.below(5), len) {
            (0, _) => rng.u64_biased(),
            (1, Some(l)) => l.saturating_sub(rng.range(0, 2)),
            (2, Some(l)) => l.saturating_add(rng.range(0, 2)),
            (_, Some(l)) if l > 0 => rng.below(l),
            _ => rng.range(0, 1000),
        };
        match check_one(&b, len, pos, &replay) {
            Ok(_) => bars += 1,
            Err(v) => {
                co.verdict = v;
                std::mem::forget(b);
                return co;
            }
        }
    }
    b.pb.abandon();
    co.count("bars_rendered_and_parsed", bars);
    co
}

/// Styled bars (round 12): colours on, `{bar:<align>N[!].fg/bg}` - the escape sequences that colour the filled and the
/// empty part must not count as columns anywhere (alignment, truncation), so the geometry laws hold unchanged.
/// N is a multiple of the cell width here, so the field has no padding and the alignment cannot show.
fn styled_case(seed: u64, idx: u64) -> CaseOut {
    let mut rng = Rng::derive(seed, 1313, idx);
    let set = rng.usize(CHARSETS.len());
    let cw = UnicodeWidthStr::width(clusters(CHARSETS[set])[0].as_str()).max(1);
    let n = (rng.range(1, 64) as usize / cw).max(1) * cw;
    let align = *rng.pick(&["", "<", ">", "^"]);
    let rest = format!("{}{}", if rng.chance(1, 2) { "!" } else { "" }, rng.pick(&[".red/blue", ".green", ".cyan/blue", ".white.on_black/yellow"]));
    let replay = format!("y{seed}:{idx}");
    let mut co = CaseOut::held(fnv1a(format!("y{set}:{n}:{align}:{rest}:{idx}").as_bytes()), true);
    let b = match make_bar_with(set, n, align, &rest) {
        Ok(b) => b,
        Err(e) => {
            co.verdict = Verdict::Inconclusive(format!("style rejected: {e}"));
            return co;
        }
    };
    let mut bars = 0;
    for _ in 0..20 {
        let len = if rng.chance(1, 6) { None } else { Some(rng.range(0, 5000)) };
        let pos = match len {
            Some(l) if l > 0 && rng.chance(3, 4) => rng.below(l + 1),
            Some(l) => l.saturating_add(rng.range(0, 2)),
            None => rng.range(0, 1000),
        };
        match check_one(&b, len, pos, &replay) {
            Ok(_) => bars += 1,
            Err(v) => {
                co.verdict = match v {
                    Verdict::Violated(mut x) => {
                        x.features.push("styled".into());
                        x.detail = format!("{{bar:{align}{n}{rest}}} with colours on: {}", x.detail);
                        Verdict::Violated(x)
                    }
                    o => o,
                };
                std::mem::forget(b);
                return co;
            }
        }
    }
    b.pb.abandon();
    co.count("styled_bars_rendered_and_parsed", bars);
    co
}

/// `{wide_bar}`: the whole line is exactly as wide as the terminal whenever the rest fits.
fn wide_case(seed: u64, idx: u64) -> CaseOut {
    let mut rng = Rng::derive(seed, 1300, idx);
    let set = rng.usize(CHARSETS.len());
    let chars = clusters(CHARSETS[set]);
    let cw = UnicodeWidthStr::width(chars[0].as_str());
    let w = rng.range(1, 300) as u16;
    let (pre, post) = (*rng.pick(&["", "ab ", "[", "xxxxxxxxxx "]), *rng.pick(&["", " {pos}/{len}", "]", " {msg}"]));
    // a value with a newline next to the bar: the bar shares the terminal width with its own row only
    let multiline = rng.chance(1, 4);
    let msg_first = rng.chance(1, 2);
    let (pre, post) = if multiline {
        if msg_first { ("{msg} ", "") } else { ("", " {msg}") }
    } else {
        (pre, post)
    };
    // a custom key next to the bar whose output holds a TAB (written char by char): the bar must be sized
    // against the expanded text
    let with_tab_key = !multiline && rng.chance(1, 6);
    let (pre, post) = if with_tab_key { ("{ck} ", "") } else { (pre, post) };
    let spec = format!("{pre}{{wide_bar}}{post}");
    let len = rng.range(0, 2000);
    let pos = rng.range(0, 2100);
    let replay = format!("w{seed}:{idx}");
    let mut co = CaseOut::held(fnv1a(format!("{spec}{w}{set}{len}{pos}").as_bytes()), true);
    let witness = J::obj().with("template", spec.clone()).with("terminal_width", w).with("progress_chars", CHARSETS[set]).with("len", len).with("pos", pos);
    let style = ProgressStyle::with_template(&spec).unwrap().progress_chars(CHARSETS[set]);
    let style = if with_tab_key {
        style.with_key("ck", |_: &indicatif::ProgressState, w: &mut dyn std::fmt::Write| {
            for c in "j\t7".chars() {
                let _ = w.write_char(c);
            }
        })
    } else {
        style
    };
    let r = crate::rend::render_with(w, Some(len), style, move |pb| {
        pb.set_message(if multiline { "m1\nmm22" } else { "mm" });
        pb.set_position(pos);
    });
    let mut feats = vec![format!("cell-width-{cw}"), "wide_bar".to_string()];
    if multiline {
        feats.push("newline-in-neighbour".into());
    }
    if with_tab_key {
        feats.push("tab-in-custom-key".into());
    }
    match r {
        Err(p) => co.verdict = viol("panic", feats, format!("{spec} at width {w} panicked: {p}"), witness, replay),
        Ok(r) => {
            // (with a two-line message in front of the bar, the bar sits on the second row)
            let line = r.lines.get(if multiline && msg_first { 1 } else { 0 }).cloned().unwrap_or_default();
            let c = cols_of(&line);
            let rest = cols_of(&line.replace(|ch: char| chars.iter().any(|x| x.starts_with(ch)), ""));
            let w = w as usize;
            // the rest of the line without the bar (bar characters may also occur in the rest for
            // alphabetic sets: measure the rest from the template instead)
            let rest_cols = if with_tab_key {
                // "j" + 8 blanks + "7" + " "
                11
            } else if multiline {
                if msg_first { 5 } else { 3 }
            } else {
                pre.len()
                    + match post {
                        " {pos}/{len}" => format!(" {pos}/{len}").len(),
                        " {msg}" => 3,
                        p => p.len(),
                    }
            };
            let _ = rest;
            if rest_cols <= w {
                if c > w {
                    co.verdict = viol("wide-bar-overflows-terminal", feats, format!("{spec}: line is {c} columns on a {w}-column terminal: {line:?}"), witness, replay);
                } else if c + cw <= w {
                    co.verdict = viol("wide-bar-does-not-fill", feats, format!("{spec}: line is only {c} columns on a {w}-column terminal (cells are {cw} wide): {line:?}"), witness, replay);
                }
            }
            co.count("wide_bar_lines_measured", 1);
        }
    }
    co
}

/// Schedule lane: `{wide_bar}` is laid out for the terminal the frame is written to. While one thread ticks
/// a member bar, the MultiProgress is given another terminal of a different width by a second thread -
/// the switch is injected (delay hook) right after the drawing thread releases a read lock or before it
/// requests the next lock, i.e. at every point of a draw where the MultiProgress state is not held.
/// Every bar line any terminal receives must be exactly as wide as THAT terminal (the rest always fits).
fn retarget_race_case(seed: u64, idx: u64) -> CaseOut {
    use indicatif::verif_hooks as vh;
    use std::sync::atomic::{AtomicBool, AtomicU64, Ordering::SeqCst};
    use std::sync::{mpsc, Arc};
    let mut rng = Rng::derive(seed, 1313, idx);
    let replay = format!("r{seed}:{idx}");
    let (w1, w2) = (rng.range(30, 90) as u16, rng.range(12, 29) as u16);
    let (first, second) = if rng.chance(1, 2) { (w1, w2) } else { (w2, w1) };
    let fire_at = rng.range(1, 12);
    let witness = J::obj().with("first_terminal_width", first).with("second_terminal_width", second).with("switch_at_sync_point", fire_at);
    let feats = vec!["wide_bar".to_string(), "retarget-race".to_string()];
    let mut co = CaseOut::held(fnv1a(format!("{first}{second}{fire_at}").as_bytes()), true);
    let spy_a = crate::spy::SpyTerm::new(first, 10, false);
    let spy_b = crate::spy::SpyTerm::new(second, 10, false);
    for s in [&spy_a, &spy_b] {
        s.enable_log();
        s.state().snap_on_flush = false;
    }
    let armed = Arc::new(AtomicBool::new(false));
    let points = Arc::new(AtomicU64::new(0));
    let done = Arc::new(AtomicBool::new(false));
    let (tx, rx) = mpsc::channel::<()>();
    let tx = std::sync::Mutex::new(Some(tx));
    let (a2, p2, d2) = (armed.clone(), points.clone(), done.clone());
    let session = vh::Session::new(
        None,
        false,
        Some(Box::new(move |p: &vh::DelayPoint| {
            if p.thread != 0 || !a2.load(SeqCst) || !matches!(p.kind, vh::DelayKind::AfterRelease | vh::DelayKind::BeforeRequest) {
                return;
            }
            if p2.fetch_add(1, SeqCst) + 1 == fire_at {
                if let Some(tx) = tx.lock().unwrap().take() {
                    let _ = tx.send(());
                    // give the other thread a moment to complete the switch (it cannot while we hold the state)
                    let t0 = std::time::Instant::now();
                    while !d2.load(SeqCst) && t0.elapsed().as_micros() < 3_000 {
                        std::thread::yield_now();
                    }
                }
            }
        })),
    );
    vh::install(Some(session));
    let res = catch_unwind(AssertUnwindSafe(|| {
        let mp = indicatif::MultiProgress::with_draw_target(indicatif::ProgressDrawTarget::term_like(spy_a.boxed()));
        let pb = mp.add(indicatif::ProgressBar::with_draw_target(Some(10), indicatif::ProgressDrawTarget::hidden()).with_style(ProgressStyle::with_template("{wide_bar} {pos}/{len}").unwrap().progress_chars("#>-")));
        pb.set_position(5);
        let mp2 = mp.clone();
        let tb = spy_b.boxed();
        let dd = done.clone();
        let helper = std::thread::spawn(move || {
            if rx.recv().is_ok() {
                mp2.set_draw_target(indicatif::ProgressDrawTarget::term_like(tb));
                dd.store(true, SeqCst);
            }
        });
        armed.store(true, SeqCst);
        pb.tick();
        armed.store(false, SeqCst);
        // (if the switch point was never reached the helper is released by dropping the session's sender)
        vh::install(None);
        if !done.load(SeqCst) {
            // not reached inside the draw: nothing was injected
            drop(helper);
            return None;
        }
        let _ = helper.join();
        pb.tick();
        pb.abandon();
        Some(())
    }));
    vh::install(None);
    match res {
        Err(p) => co.verdict = viol("panic", feats, format!("panicked: {}", crate::world::panic_message(&p)), witness, replay),
        Ok(None) => co.nontrivial = false,
        Ok(Some(())) => {
            for (spy, width, name) in [(&spy_a, first as usize, "first"), (&spy_b, second as usize, "second")] {
                let st = spy.state();
                let Some(log) = &st.log else { continue };
                for c in log.iter().filter(|c| c.kind == crate::spy::CallKind::WriteStr) {
                    let t = c.text.clone().unwrap_or_default();
                    if t.contains('#') || t.contains('-') {
                        let cols = cols_of(&t);
                        if cols != width {
                            co.verdict = viol(
                                "wide-bar-overflows-terminal",
                                feats.clone(),
                                format!("the {name} terminal ({width} columns) received a bar line of {cols} columns while the MultiProgress was being switched from a {first}- to a {second}-column terminal: {t:?}"),
                                witness.clone(),
                                replay.clone(),
                            );
                        }
                    }
                }
            }
            co.count("retarget_races_injected", 1);
        }
    }
    co
}


/// Resize lane: the terminal changes its width between two draws (no concurrency). The first `{wide_bar}`
/// line laid out after the change - by a standalone bar or by a MultiProgress member - must already fit the
/// new width exactly. The terminal records the width it had when each line arrived.
#[derive(Clone, Debug)]
struct ResizeTerm {
    width: std::sync::Arc<std::sync::atomic::AtomicU64>,
    lines: std::sync::Arc<std::sync::Mutex<Vec<(u16, String)>>>,
}

impl indicatif::TermLike for ResizeTerm {
    fn width(&self) -> u16 {
        self.width.load(std::sync::atomic::Ordering::SeqCst) as u16
    }
    fn height(&self) -> u16 {
        40
    }
    fn move_cursor_up(&self, _: usize) -> std::io::Result<()> {
        Ok(())
    }
    fn move_cursor_down(&self, _: usize) -> std::io::Result<()> {
        Ok(())
    }
    fn move_cursor_right(&self, _: usize) -> std::io::Result<()> {
        Ok(())
    }
    fn move_cursor_left(&self, _: usize) -> std::io::Result<()> {
        Ok(())
    }
    fn write_line(&self, s: &str) -> std::io::Result<()> {
        self.write_str(s)
    }
    fn write_str(&self, s: &str) -> std::io::Result<()> {
        self.lines.lock().unwrap().push((self.width(), s.to_string()));
        Ok(())
    }
    fn clear_line(&self) -> std::io::Result<()> {
        Ok(())
    }
    fn flush(&self) -> std::io::Result<()> {
        Ok(())
    }
}

fn resize_case(seed: u64, idx: u64) -> CaseOut {
    use std::sync::atomic::Ordering::SeqCst;
    let mut rng = Rng::derive(seed, 1331, idx);
    let replay = format!("z{seed}:{idx}");
    let mode = rng.below(3); // 0 standalone, 1 only member, 2 member with a sibling drawn in between
    let n = rng.range(2, 5) as usize;
    let widths: Vec<u16> = (0..=n).map(|_| rng.range(12, 140) as u16).collect();
    let ops: Vec<u64> = (0..n).map(|_| rng.below(4)).collect();
    let witness = J::obj().with("mode", ["standalone", "member", "member+sibling"][mode as usize]).with("widths", J::from(widths.iter().map(|w| *w as u64).collect::<Vec<_>>())).with("ops", J::from(ops.clone()));
    let feats = vec!["wide_bar".to_string(), "resize".to_string(), if mode == 0 { "standalone".to_string() } else { "multi".to_string() }];
    let mut co = CaseOut::held(fnv1a(format!("{mode}{widths:?}{ops:?}").as_bytes()), true);
    let term = ResizeTerm { width: std::sync::Arc::new(std::sync::atomic::AtomicU64::new(widths[0] as u64)), lines: Default::default() };
    let style = ProgressStyle::with_template("{wide_bar} A{pos}/{len}").unwrap().progress_chars("#>-");
    let target = || indicatif::ProgressDrawTarget::term_like_with_hz(Box::new(term.clone()), 255);
    let mp = (mode != 0).then(|| indicatif::MultiProgress::with_draw_target(target()));
    let pb = match &mp {
        Some(mp) => mp.add(indicatif::ProgressBar::with_draw_target(Some(10), indicatif::ProgressDrawTarget::hidden()).with_style(style)),
        None => indicatif::ProgressBar::with_draw_target(Some(10), target()).with_style(style),
    };
    let sib = match (&mp, mode) {
        (Some(mp), 2) => Some(mp.add(indicatif::ProgressBar::with_draw_target(Some(10), indicatif::ProgressDrawTarget::hidden()).with_style(ProgressStyle::with_template("B{pos}").unwrap()))),
        _ => None,
    };
    let res = catch_unwind(AssertUnwindSafe(|| {
        pb.set_position(5);
        pb.tick();
        let mut checked = 0u64;
        for (i, op) in ops.iter().enumerate() {
            term.width.store(widths[i + 1] as u64, SeqCst);
            term.lines.lock().unwrap().clear();
            match op {
                0 => pb.tick(),
                1 => pb.set_message("x"),
                2 => pb.set_length(11 + i as u64),
                _ => {
                    if let Some(s) = &sib {
                        // the sibling's draw repaints our stored line (laid out for the old width: nothing to
                        // check), then we draw ourselves
                        s.tick();
                        term.lines.lock().unwrap().clear();
                    }
                    pb.tick()
                }
            }
            let lines = term.lines.lock().unwrap().clone();
            for (w, t) in lines.iter().filter(|(_, t)| t.contains(" A")) {
                checked += 1;
                let cols = cols_of(t.trim_end_matches(' '));
                let full = cols_of(t);
                if full > *w as usize || cols != *w as usize {
                    return Err((format!("after the terminal went from {} to {} columns, the first line drawn is {cols} columns wide: {t:?}", widths[i], w), i));
                }
            }
        }
        pb.abandon();
        if let Some(s) = &sib {
            s.abandon();
        }
        Ok(checked)
    }));
    match res {
        Err(p) => {
            std::mem::forget(pb);
            co.verdict = viol("panic", feats, format!("panicked: {}", crate::world::panic_message(&p)), witness, replay)
        }
        Ok(Err((d, _))) => co.verdict = viol("wide-bar-stale-terminal-width", feats, d, witness, replay),
        Ok(Ok(n)) => {
            co.nontrivial = n > 0;
            co.count("lines_checked_after_resize", n);
        }
    }
    co
}

pub fn run(cfg: &RunCfg) -> PropResult {
    console::set_colors_enabled(false);
    let sets: Vec<usize> = if cfg.thorough { (0..CHARSETS.len()).collect() } else { vec![1, 4, 11] };
    let max_len: u64 = 64;
    let report = if let Some(case) = &cfg.case {
        let mut r = crate::report::Report::default();
        if let Some(rest) = case.strip_prefix('e') {
            let mut it = rest.split(':');
            let set: usize = it.next().and_then(|s| s.parse().ok()).unwrap_or(0);
            let n: usize = it.next().and_then(|s| s.parse().ok()).unwrap_or(0);
            r.add(0, exhaustive_case(set, n, max_len, case.clone()));
        } else {
            let wide = case.starts_with('w');
            let mut it = case[1..].split(':');
            let seed: u64 = it.next().and_then(|s| s.parse().ok()).unwrap_or(cfg.seed);
            let idx: u64 = it.next().and_then(|s| s.parse().ok()).unwrap_or(0);
            if case.starts_with('y') {
                console::set_colors_enabled(true);
            }
            r.add(idx, if case.starts_with('y') { styled_case(seed, idx) } else if case.starts_with('z') { resize_case(seed, idx) } else if case.starts_with('r') { retarget_race_case(seed, idx) } else if wide { wide_case(seed, idx) } else { sampled_case(seed, idx) });
        }
        r
    } else {
        let n_ex = (sets.len() * 65) as u64;
        let mut r = run_parallel(n_ex, workers(), |i| {
            let set = sets[(i / 65) as usize];
            let n = (i % 65) as usize;
            exhaustive_case(set, n, max_len, format!("e{set}:{n}"))
        });
        let ns = if cfg.thorough { 250_000 } else { 3_000 };
        r.merge(crate::report::run_parallel_tagged('s', ns, workers(), |i| sampled_case(cfg.seed, i)));
        let nw = if cfg.thorough { 500_000 } else { 10_000 };
        r.merge(crate::report::run_parallel_tagged('w', nw, workers(), |i| wide_case(cfg.seed, i)));
        let nr = if cfg.thorough { 60_000 } else { 1_500 };
        r.merge(crate::report::run_parallel_tagged('r', nr, workers(), |i| retarget_race_case(cfg.seed, i)));
        let nz = if cfg.thorough { 400_000 } else { 8_000 };
        r.merge(crate::report::run_parallel_tagged('z', nz, workers(), |i| resize_case(cfg.seed, i)));
        // styled bars: its own phase, because the colour switch of the console crate is process-wide
        console::set_colors_enabled(true);
        let ny = if cfg.thorough { 200_000 } else { 4_000 };
        r.merge(crate::report::run_parallel_tagged('y', ny, workers(), |i| styled_case(cfg.seed, i)));
        console::set_colors_enabled(false);
        r.extra.insert("exhaustive_slice".into(), J::from(format!("bar widths 0..=64 x lengths 0..=64 x positions 0..=len+1 x {} character sets", sets.len())));
        r
    };
    PropResult {
        report,
        rule: "exhaustive slice: every {bar:N} for N 0..=64, every length 0..=64, every position 0..=len+1 (and unknown length) for the selected progress character sets (one evaluation = one (set, N) pair, i.e. ~2200 rendered bars, each parsed back into filled / partial / background cells); plus sampled huge lengths/positions/widths (20 bars per evaluation) and {wide_bar} lines on terminals 1..300 columns; all evaluations are distinct by construction".into(),
        exhaustive: false,
    }
}
