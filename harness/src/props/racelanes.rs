//! Schedule lanes for the screen properties whose statements quantify over histories but which a
//! change can break through a *schedule*:
//!
//! * C03 (`u` cases): while the closure passed to `suspend` runs, nothing may repaint the bars: a second
//!   thread's ordinary update is let loose from inside the closure (it must stay blocked until the
//!   closure's output is on the terminal); afterwards the closure's line must be on the screen, above
//!   the bars, exactly once.
//! * C01 (`k` cases): a steady-tick thread is parked (delay hook of the verif-hooks feature) right in
//!   front of its K-th lock request; the main thread finishes the bar and lets the program print its
//!   next line; the ticker is released and joined. The finished frame must be on the screen once,
//!   with the program's line below it - a tick that was already "in flight" must not repaint.
//!
//! Both lanes force the interleaving at a point where the real code either holds a lock (then the
//! injected thread simply waits) or does not (then the injected step happens): deterministic, no
//! wall-clock verdicts. Bounded real-time waits only decide how long the closure gives the other
//! thread; on the unchanged tree they always run out.

use crate::json::J;
use crate::prng::{fnv1a, Rng};
use crate::report::{CaseOut, Verdict, Violation};
use crate::spy::SpyTerm;
use indicatif::verif_hooks as vh;
use indicatif::{MultiProgress, ProgressBar, ProgressDrawTarget, ProgressStyle};
use std::panic::{catch_unwind, AssertUnwindSafe};
use std::sync::atomic::{AtomicBool, AtomicU64, Ordering::SeqCst};
use std::sync::{mpsc, Arc, Condvar, Mutex};
use std::time::{Duration, Instant};

fn viol(rule: &str, feats: Vec<String>, detail: String, w: J, replay: String) -> Verdict {
    Verdict::Violated(Box::new(Violation { rule: rule.into(), features: feats, detail, witness: w, replay }))
}

fn rows_of(spy: &SpyTerm) -> Vec<String> {
    let mut rows: Vec<String> = spy.state().screen.all_rows().iter().map(|r| r.trim_end().to_string()).collect();
    while rows.last().map_or(false, |r| r.is_empty()) {
        rows.pop();
    }
    rows
}

// ------------------------------------------------------------------------------------------------------
// C03: suspend is atomic with respect to other threads' redraws
// ------------------------------------------------------------------------------------------------------

pub fn suspend_race_case(seed: u64, idx: u64) -> CaseOut {
    let mut rng = Rng::derive(seed, 303, idx);
    let replay = format!("u{seed}:{idx}");
    let kind = rng.below(3); // 0: MultiProgress::suspend, 1: member.suspend, 2: standalone.suspend
    let kind_name = ["MultiProgress::suspend", "ProgressBar::suspend (member)", "ProgressBar::suspend (standalone)"][kind as usize];
    let other_op = rng.below(4); // what the second thread does
    let op_name = ["inc", "tick", "set_message", "println"][other_op as usize];
    let n_bars = if kind == 2 { 1 } else { rng.range(2, 3) as usize };
    let n_inside = rng.range(1, 3);
    let wait_us = *rng.pick(&[500u64, 2_000, 4_000]);
    let spy = SpyTerm::new(40, 30, false);
    spy.state().snap_on_flush = false;
    let style = |i: usize| ProgressStyle::with_template(&format!("B{i} {{pos}}/{{len}} {{msg}}")).unwrap();
    let mp = (kind != 2).then(|| MultiProgress::with_draw_target(ProgressDrawTarget::term_like(spy.boxed())));
    let bars: Vec<ProgressBar> = (0..n_bars)
        .map(|i| match &mp {
            Some(mp) => mp.add(ProgressBar::with_draw_target(Some(10), ProgressDrawTarget::hidden()).with_style(style(i))),
            None => ProgressBar::with_draw_target(Some(10), ProgressDrawTarget::term_like(spy.boxed())).with_style(style(i)),
        })
        .collect();
    let w = J::obj().with("call", kind_name).with("second_thread", op_name).with("bars", n_bars).with("lines_written_inside", n_inside);
    let feats = vec!["suspend-race".to_string(), kind_name.to_string(), format!("other-{op_name}")];
    let mut co = CaseOut::held(fnv1a(format!("{kind}{other_op}{n_bars}{n_inside}{wait_us}").as_bytes()), true);
    let res = catch_unwind(AssertUnwindSafe(|| -> Verdict {
        for b in &bars {
            b.tick();
        }
        match &mp {
            Some(mp) => {
                let _ = mp.println("log 1");
            }
            None => bars[0].println("log 1"),
        }
        let (tx, rx) = mpsc::channel::<()>();
        let done = Arc::new(AtomicBool::new(false));
        // the second thread works on the last bar (a clone of the only bar when standalone)
        let hb = bars[n_bars - 1].clone();
        let hmp = mp.clone();
        let d2 = done.clone();
        let helper = std::thread::spawn(move || {
            if rx.recv().is_ok() {
                match other_op {
                    0 => hb.inc(1),
                    1 => hb.tick(),
                    2 => hb.set_message("m"),
                    _ => match &hmp {
                        Some(mp) => {
                            let _ = mp.println("from the other thread");
                        }
                        None => hb.println("from the other thread"),
                    },
                }
                d2.store(true, SeqCst);
            }
        });
        let term = spy.boxed();
        let inside = || {
            let _ = tx.send(());
            let t0 = Instant::now();
            while !done.load(SeqCst) && (t0.elapsed().as_micros() as u64) < wait_us {
                std::thread::yield_now();
            }
            for i in 0..n_inside {
                let _ = term.write_line(&format!("inside {i}"));
            }
            let _ = term.flush();
            done.load(SeqCst)
        };
        let overlapped = match kind {
            0 => mp.as_ref().unwrap().suspend(inside),
            _ => bars[0].suspend(inside),
        };
        let _ = helper.join();
        // settle: one more ordinary frame
        bars[0].tick();
        let rows = rows_of(&spy);
        let pos_of = |needle: &str| rows.iter().position(|r| r == needle);
        let first_bar = rows.iter().position(|r| r.starts_with('B'));
        let mut problem = None;
        for i in 0..n_inside {
            let line = format!("inside {i}");
            let count = rows.iter().filter(|r| **r == line).count();
            if count != 1 {
                problem = Some(("log-missing", format!("the line {line:?} written by the closure is on the screen {count} times")));
                break;
            }
            if let (Some(p), Some(fb)) = (pos_of(&line), first_bar) {
                if p > fb {
                    problem = Some(("log-below-bar", format!("the line {line:?} written by the closure sits below a bar row")));
                    break;
                }
            }
        }
        if problem.is_none() {
            for i in 0..n_bars {
                let c = rows.iter().filter(|r| r.starts_with(&format!("B{i} "))).count();
                if c != 1 {
                    problem = Some(("member-duplicated", format!("bar B{i} is on the screen {c} times")));
                    break;
                }
            }
        }
        if problem.is_none() && pos_of("log 1").is_none() {
            problem = Some(("log-missing", "the line printed before the suspend is gone".to_string()));
        }
        for b in &bars {
            b.abandon();
        }
        match problem {
            Some((rule, d)) => viol(
                rule,
                feats.clone(),
                format!("{kind_name} with a closure that writes {n_inside} line(s) while another thread calls {op_name} (completed inside the closure: {overlapped}): {d}; screen: {rows:?}"),
                w.clone(),
                replay.clone(),
            ),
            None => Verdict::Held,
        }
    }));
    match res {
        Ok(v) => co.verdict = v,
        Err(p) => {
            for b in bars {
                std::mem::forget(b);
            }
            co.verdict = viol("panic", feats, format!("panicked: {}", crate::world::panic_message(&p)), w, replay);
        }
    }
    co.count("suspend_races_injected", 1);
    co.see("suspend_race_kinds", kind * 4 + other_op);
    co
}

// ------------------------------------------------------------------------------------------------------
// C01: a finished bar is not repainted by a tick that was already under way
// ------------------------------------------------------------------------------------------------------

struct Gate {
    /// (parked, released)
    st: Mutex<(bool, bool)>,
    cv: Condvar,
}

pub fn ticker_race_case(seed: u64, idx: u64) -> CaseOut {
    let mut rng = Rng::derive(seed, 101, idx);
    let replay = format!("k{seed}:{idx}");
    let park_at = rng.range(1, 8); // the ticker thread's K-th lock request
    let fin = rng.below(4);
    let fin_name = ["finish", "finish_with_message", "abandon", "abandon_with_message"][fin as usize];
    let after = rng.below(3); // what the program prints next
    let w = J::obj().with("ticker_parked_before_lock_request", park_at).with("finish_call", fin_name).with("then", ["one line", "two lines", "nothing"][after as usize]);
    let feats = vec!["steady-tick".to_string(), "finish-race".to_string(), fin_name.to_string()];
    let mut co = CaseOut::held(fnv1a(format!("{park_at}{fin}{after}").as_bytes()), true);

    let gate = Arc::new(Gate { st: Mutex::new((false, false)), cv: Condvar::new() });
    let main_id = Arc::new(AtomicU64::new(u64::MAX));
    let requests = Arc::new(AtomicU64::new(0));
    let (g2, m2, r2) = (gate.clone(), main_id.clone(), requests.clone());
    let session = vh::Session::new(
        None,
        false,
        Some(Box::new(move |p: &vh::DelayPoint| {
            if !matches!(p.kind, vh::DelayKind::BeforeRequest) || p.thread as u64 == m2.load(SeqCst) {
                return;
            }
            // a thread of the library (the ticker): count its lock requests, park at the K-th
            if r2.fetch_add(1, SeqCst) + 1 == park_at {
                let mut st = g2.st.lock().unwrap();
                st.0 = true;
                g2.cv.notify_all();
                let t0 = Instant::now();
                while !st.1 && t0.elapsed() < Duration::from_secs(5) {
                    st = g2.cv.wait_timeout(st, Duration::from_millis(50)).unwrap().0;
                }
            }
        })),
    );
    vh::install(Some(session));
    main_id.store(vh::current_thread().map_or(u64::MAX - 1, |t| t as u64), SeqCst);
    let spy = SpyTerm::new(40, 12, false);
    spy.state().snap_on_flush = false;
    let pb = ProgressBar::with_draw_target(Some(10), ProgressDrawTarget::term_like(spy.boxed()));
    let res = catch_unwind(AssertUnwindSafe(|| -> Verdict {
        pb.set_style(ProgressStyle::with_template("job {pos}/{len} {msg}").unwrap());
        pb.set_position(3);
        pb.enable_steady_tick(Duration::from_millis(1));
        // wait until the ticker is parked (it ticks every millisecond)
        {
            let mut st = gate.st.lock().unwrap();
            let t0 = Instant::now();
            while !st.0 && t0.elapsed() < Duration::from_secs(3) {
                st = gate.cv.wait_timeout(st, Duration::from_millis(20)).unwrap().0;
            }
            if !st.0 {
                drop(st);
                let mut st = gate.st.lock().unwrap();
                st.1 = true;
                gate.cv.notify_all();
                drop(st);
                pb.disable_steady_tick();
                return Verdict::Inconclusive("the ticker thread never reached the lock request it was to be parked at".into());
            }
        }
        match fin {
            0 => pb.finish(),
            1 => pb.finish_with_message("done"),
            2 => pb.abandon(),
            _ => pb.abandon_with_message("gave up"),
        }
        let final_row = rows_of(&spy).last().cloned().unwrap_or_default();
        // the program goes on printing below the finished bar
        let term = spy.boxed();
        let _ = term.write_line("");
        let mut expected = vec![final_row.clone()];
        for i in 0..(2 - after.min(2)) {
            let _ = term.write_line(&format!("next {i}"));
            expected.push(format!("next {i}"));
        }
        let _ = term.flush();
        // let the parked tick proceed, then stop and join the ticker
        {
            let mut st = gate.st.lock().unwrap();
            st.1 = true;
            gate.cv.notify_all();
        }
        std::thread::sleep(Duration::from_millis(3));
        pb.disable_steady_tick();
        let rows = rows_of(&spy);
        if rows != expected {
            return viol(
                "finished-frame-repainted",
                feats.clone(),
                format!(
                    "{fin_name}() returned while the steady-tick thread stood before its lock request #{park_at}; the program printed its next lines, then the tick went ahead. Screen {rows:?}, expected {expected:?}"
                ),
                w.clone(),
                replay.clone(),
            );
        }
        Verdict::Held
    }));
    match res {
        Ok(v) => co.verdict = v,
        Err(p) => {
            let mut st = gate.st.lock().unwrap();
            st.1 = true;
            gate.cv.notify_all();
            drop(st);
            co.verdict = viol("panic", feats, format!("panicked: {}", crate::world::panic_message(&p)), w, replay);
        }
    }
    drop(pb);
    vh::install(None);
    co.count("ticker_races_injected", 1);
    co.see("ticker_park_points", park_at);
    co
}

// ------------------------------------------------------------------------------------------------------
// C04 under MultiProgress::set_move_cursor(true)
// ------------------------------------------------------------------------------------------------------
// In this mode frames are overwritten in place instead of being cleared first. Rows of a frame that
// *shrinks* to a shorter non-empty frame are a known limitation of the mode (not checked here); but a frame
// that becomes EMPTY is cleared by the code on purpose, so the statement of C04 can be checked where the mode
// supports it: one bar (1-3 template lines, fixed-width fields, widths around the terminal width, so never a
// shrinking frame or a shorter row in between), then one finishing call. Clearing variants must leave no bar row at all,
// visible variants exactly the final frame below the log lines.

pub fn move_cursor_finish_case(seed: u64, idx: u64) -> CaseOut {
    let mut rng = Rng::derive(seed, 404, idx);
    let replay = format!("v{seed}:{idx}");
    let width = rng.range(6, 30) as u16;
    let n_lines = rng.range(1, 3) as usize;
    // fixed-width fields: the number of rows of the frame does not change while the bar runs
    let tmpl: String = (0..n_lines).map(|i| format!("B{i}{{pos:>4}}/{{len:<4}}{}", "x".repeat(rng.range(0, width as u64 + 3) as usize))).collect::<Vec<_>>().join("\n");
    let fin = rng.below(8);
    let fin_name = ["finish_and_clear", "drop(AndClear)", "finish_using_style(AndClear)", "iterator(AndClear)", "finish", "abandon", "drop(AndLeave)", "finish_with_message"][fin as usize];
    let clearing = fin < 4;
    // (no log lines: in this mode a text line overwrites a bar row without erasing the rest of it - the mode
    // trades such artefacts for less flicker; nothing is claimed about them)
    let n_logs = 0u64;
    let n_updates = rng.range(0, 12);
    let w = J::obj().with("terminal_width", width).with("template", tmpl.clone()).with("finishing", fin_name).with("log_lines", n_logs).with("updates", n_updates);
    let feats = vec!["move-cursor".to_string(), fin_name.to_string(), if clearing { "clearing".into() } else { "visible".to_string() }];
    let mut co = CaseOut::held(fnv1a(format!("{width}{tmpl}{fin}{n_logs}{n_updates}").as_bytes()), true);
    let spy = SpyTerm::new(width, 40, false);
    spy.state().snap_on_flush = false;
    let res = catch_unwind(AssertUnwindSafe(|| -> Verdict {
        let mp = MultiProgress::with_draw_target(ProgressDrawTarget::term_like(spy.boxed()));
        mp.set_move_cursor(true);
        let on_finish = match fin {
            1 | 2 | 3 => indicatif::ProgressFinish::AndClear,
            6 => indicatif::ProgressFinish::AndLeave,
            _ => indicatif::ProgressFinish::AndClear,
        };
        let pb = mp.add(ProgressBar::with_draw_target(Some(10), ProgressDrawTarget::hidden()).with_style(ProgressStyle::with_template(&tmpl).unwrap()).with_finish(on_finish));
        pb.tick();
        let mut logs = Vec::new();
        for i in 0..n_updates {
            pb.inc(1);
            if (i as u64) < n_logs {
                let l = format!("log {i}");
                let _ = mp.println(&l);
                logs.push(l);
            }
        }
        for i in logs.len() as u64..n_logs {
            let l = format!("log {i}");
            let _ = mp.println(&l);
            logs.push(l);
        }
        match fin {
            0 => pb.finish_and_clear(),
            1 | 6 => drop(pb.clone()),
            2 => pb.finish_using_style(),
            3 => {
                pb.reset();
                for _ in indicatif::ProgressIterator::progress_with(0..3, pb.clone()) {}
            }
            4 => pb.finish(),
            5 => pb.abandon(),
            _ => pb.finish_with_message("m"),
        }
        if matches!(fin, 1 | 6) {
            drop(pb);
        } else {
            // keep the handle alive until the screen has been read
            std::mem::forget(pb);
        }
        let rows = rows_of(&spy);
        let bar_rows: Vec<&String> = rows.iter().filter(|r| r.starts_with('B') || r.starts_with('x') || r.contains('/')).collect();
        let log_rows: Vec<&String> = rows.iter().filter(|r| r.starts_with("log ")).collect();
        if log_rows.len() != logs.len() || log_rows.iter().zip(&logs).any(|(a, b)| *a != b) {
            return viol("log-missing", feats.clone(), format!("after {fin_name} under set_move_cursor(true): log lines on the screen {log_rows:?}, printed {logs:?}; screen {rows:?}"), w.clone(), replay.clone());
        }
        if clearing && !bar_rows.is_empty() {
            return viol(
                "cleared-bar-visible",
                feats.clone(),
                format!("{fin_name} under set_move_cursor(true): the bar was the only member, its frame becomes empty, yet bar rows are still on the screen: {rows:?}"),
                w.clone(),
                replay.clone(),
            );
        }
        if !clearing {
            // the final frame: every template line once, in order, below the log lines
            let firsts: Vec<usize> = (0..n_lines).filter_map(|i| rows.iter().position(|r| r.starts_with(&format!("B{i}")))).collect();
            let counts: Vec<usize> = (0..n_lines).map(|i| rows.iter().filter(|r| r.starts_with(&format!("B{i}"))).count()).collect();
            let last_log = rows.iter().rposition(|r| r.starts_with("log "));
            if counts.iter().any(|c| *c != 1) || firsts.windows(2).any(|p| p[0] >= p[1]) || last_log.map_or(false, |l| firsts.first().map_or(true, |f| *f < l)) {
                return viol(
                    "final-frame-missing",
                    feats.clone(),
                    format!("{fin_name} under set_move_cursor(true): the final frame must be on the screen exactly once below the log lines; screen {rows:?}"),
                    w.clone(),
                    replay.clone(),
                );
            }
        }
        Verdict::Held
    }));
    match res {
        Ok(v) => co.verdict = v,
        Err(p) => co.verdict = viol("panic", feats, format!("panicked: {}", crate::world::panic_message(&p)), w, replay),
    }
    co.count("move_cursor_finishes_checked", 1);
    co.see("move_cursor_finish_kinds", fin);
    co
}

// ------------------------------------------------------------------------------------------------------
// C04: a bar finished by the exhaustion of a wrapped iterator
// ------------------------------------------------------------------------------------------------------
// The terminating `None` may come from next(), next_back() or a mix of both (rev(), rfold, a double-ended
// walk that meets in the middle); whichever end it comes from, the bar is finished according to the
// behaviour configured with with_finish(), and the screen shows exactly that.

pub fn iter_finish_case(seed: u64, idx: u64) -> CaseOut {
    use indicatif::{ProgressFinish, ProgressIterator};
    let mut rng = Rng::derive(seed, 414, idx);
    let replay = format!("i{seed}:{idx}");
    let fin = rng.below(5);
    let fin_name = ["AndLeave", "WithMessage", "AndClear", "Abandon", "AbandonWithMessage"][fin as usize];
    let walk = rng.below(8);
    let n = rng.range(0, 12);
    let declared = if rng.chance(1, 3) { n + rng.range(1, 5) } else { n };
    let in_multi = rng.chance(1, 2);
    // a third of the loops finish the bar by hand half-way
    let manual: Option<(u64, u64)> = (n >= 1 && rng.chance(1, 3)).then(|| (rng.range(0, n - 1), rng.below(5)));
    // walks 4-7 consume the adaptor by internal iteration (for_each, count, last, fold): an adaptor that overrides
    // fold()/try_fold() must still finish the bar although the caller keeps a second handle (round 11)
    let walk = if manual.is_some() { walk % 4 } else { walk };
    let walk_name = ["next", "next_back", "rev", "alternating ends", "for_each", "count", "last", "fold"][walk as usize];
    let w = J::obj().with("with_finish", fin_name).with("walk", walk_name).with("items", n).with("declared_length", declared).with("in_multi", in_multi).with(
        "finished_by_hand",
        manual.map(|(k, m)| format!("{} after {k} items", ["finish", "finish_with_message", "abandon", "abandon_with_message", "finish_and_clear"][m as usize])),
    );
    let mut feats = vec!["iterator-exhaustion".to_string(), fin_name.to_string(), format!("walk-{walk_name}")];
    if manual.is_some() {
        feats.push("finished-by-hand".into());
    }
    let clock = Arc::new(AtomicU64::new(3_000_000_000));
    crate::world::install_session(&clock);
    let mut co = CaseOut::held(fnv1a(format!("{fin}{walk}{n}{declared}{in_multi}{manual:?}").as_bytes()), true);
    let spy = SpyTerm::new(40, 12, false);
    spy.state().snap_on_flush = false;
    let res = catch_unwind(AssertUnwindSafe(|| -> Verdict {
        let on_finish = match fin {
            0 => ProgressFinish::AndLeave,
            1 => ProgressFinish::WithMessage("done".into()),
            2 => ProgressFinish::AndClear,
            3 => ProgressFinish::Abandon,
            _ => ProgressFinish::AbandonWithMessage("left".into()),
        };
        let style = ProgressStyle::with_template("B {pos}/{len} [{msg}]").unwrap();
        let mp = in_multi.then(|| MultiProgress::with_draw_target(ProgressDrawTarget::term_like(spy.boxed())));
        let pb = match &mp {
            Some(mp) => mp.add(ProgressBar::with_draw_target(Some(declared), ProgressDrawTarget::hidden()).with_style(style).with_finish(on_finish)),
            None => ProgressBar::with_draw_target(Some(declared), ProgressDrawTarget::term_like(spy.boxed())).with_style(style).with_finish(on_finish),
        };
        pb.set_message("run");
        let mut it = (0..n).progress_with(pb.clone());
        let mut seen = 0u64;
        if let Some((k, m)) = manual {
            // the caller finishes the bar by hand after k items and lets the loop run to its end: the adaptor
            // keeps counting, but a bar that is already finished is not finished a second time
            let mut front = true;
            loop {
                if seen == k {
                    match m {
                        0 => pb.finish(),
                        1 => pb.finish_with_message("early"),
                        2 => pb.abandon(),
                        3 => pb.abandon_with_message("stop"),
                        _ => pb.finish_and_clear(),
                    }
                }
                clock.fetch_add(2_000_000, SeqCst);
                let x = match walk {
                    0 => it.next(),
                    3 => {
                        front = !front;
                        if front { it.next_back() } else { it.next() }
                    }
                    _ => it.next_back(),
                };
                if x.is_none() {
                    break;
                }
                seen += 1;
            }
        } else {
        match walk {
            0 => while it.next().is_some() { seen += 1 },
            1 => while it.next_back().is_some() { seen += 1 },
            2 => {
                for _ in it.rev() {
                    seen += 1;
                }
            }
            4 => it.for_each(|_| seen += 1),
            5 => seen = it.count() as u64,
            6 => {
                seen = n;
                let _ = it.last();
            }
            7 => seen = it.fold(0u64, |a, _| a + 1),
            _ => {
                let mut front = true;
                loop {
                    let x = if front { it.next() } else { it.next_back() };
                    front = !front;
                    if x.is_none() {
                        break;
                    }
                    seen += 1;
                }
            }
        }
        }
        let want_row = match (manual, fin) {
            (Some((k, m)), _) => {
                let rest = n - k;
                match m {
                    0 => Some(format!("B {}/{declared} [run]", declared + rest)),
                    1 => Some(format!("B {}/{declared} [early]", declared + rest)),
                    2 => Some(format!("B {n}/{declared} [run]")),
                    3 => Some(format!("B {n}/{declared} [stop]")),
                    _ => None,
                }
            }
            (None, 0) => Some(format!("B {declared}/{declared} [run]")),
            (None, 1) => Some(format!("B {declared}/{declared} [done]")),
            (None, 2) => None,
            (None, 3) => Some(format!("B {seen}/{declared} [run]")),
            (None, _) => Some(format!("B {seen}/{declared} [left]")),
        };
        let rows = rows_of(&spy);
        let bar_rows: Vec<&String> = rows.iter().filter(|r| r.starts_with("B ")).collect();
        let ok = match &want_row {
            None => bar_rows.is_empty(),
            Some(r) => bar_rows.len() == 1 && bar_rows[0] == r,
        };
        let finished = pb.is_finished();
        // keep the handle (and the MultiProgress) alive until the screen has been read
        std::mem::forget(pb);
        std::mem::forget(mp);
        if !finished {
            return viol("no-final-frame", feats.clone(), format!("the iterator ({walk_name}, {n} items) is exhausted but the bar is not finished; screen {rows:?}"), w.clone(), replay.clone());
        }
        if !ok {
            return viol(
                if want_row.is_none() { "cleared-bar-visible" } else { "final-frame-wrong" },
                feats.clone(),
                format!("iterator exhausted through {walk_name} with with_finish({fin_name}){}: the screen shows {bar_rows:?}, expected {want_row:?}", if manual.is_some() { " after the bar had been finished by hand" } else { "" }),
                w.clone(),
                replay.clone(),
            );
        }
        Verdict::Held
    }));
    match res {
        Ok(v) => co.verdict = v,
        Err(p) => co.verdict = viol("panic", feats, format!("panicked: {}", crate::world::panic_message(&p)), w, replay),
    }
    vh::install(None);
    co.count("iterator_finishes_checked", 1);
    co.count("loops_finished_by_hand", manual.is_some() as u64);
    co.see("iterator_finish_kinds", fin * 4 + walk);
    co
}

// ------------------------------------------------------------------------------------------------------
// C01 / C19: several standalone bars, one after the other, on the same terminal
// ------------------------------------------------------------------------------------------------------
// The usual shape of a program with phases: a bar runs, prints a few lines, finishes (left on screen or
// cleared) and is dropped; then the next bar starts on the same terminal. Nothing tells the second bar what
// the first one left behind - it relies on the cursor having been parked at the right edge of the last row.
// Oracle: the final screen is exactly the log lines and the final frames (physical rows, blank rows
// included), in order.

pub fn sequential_bars_case(seed: u64, idx: u64) -> CaseOut {
    use crate::vscreen::phys_rows;
    let mut rng = Rng::derive(seed, 1901, idx);
    let replay = format!("q{seed}:{idx}");
    let width = rng.range(5, 40) as usize;
    let n_bars = rng.range(2, 4) as usize;
    let spy = SpyTerm::new(width as u16, 200, false);
    spy.state().snap_on_flush = false;
    let mut expected: Vec<String> = Vec::new();
    let mut script: Vec<String> = Vec::new();
    let mut co = CaseOut::held(0, true);
    let text = |rng: &mut Rng, tag: &str| -> String {
        let n = match rng.below(4) {
            0 => rng.usize(4),
            1 => width.saturating_sub(tag.len() + rng.usize(3)),
            2 => width + rng.usize(width + 2),
            _ => rng.usize(width),
        };
        format!("{tag}{}", "abcdefghijklmnopqrstuvwxyz".chars().cycle().take(n).collect::<String>())
    };
    let frame_rows = |tmpl: &[String], msg: &str| -> Vec<String> {
        // (a final empty template line produces no row; an empty line anywhere else - also one that comes
        // out of a message ending in a newline - is a blank row)
        let tmpl: &[String] = if tmpl.len() > 1 && tmpl.last().map_or(false, |l| l.is_empty()) { &tmpl[..tmpl.len() - 1] } else { tmpl };
        let rendered = tmpl.join("\n").replace("{msg}", msg);
        let lines: Vec<&str> = rendered.split('\n').collect();
        lines.iter().flat_map(|l| if l.is_empty() { vec![String::new()] } else { phys_rows(l, width) }).collect()
    };
    let res = catch_unwind(AssertUnwindSafe(|| {
        for i in 0..n_bars {
            let n_lines = rng.range(1, 3) as usize;
            let mut tmpl: Vec<String> = (0..n_lines).map(|j| format!("B{i}L{j} {{msg}}")).collect();
            match rng.below(5) {
                0 => tmpl.push(String::new()),          // blank last line
                1 if n_lines > 1 => tmpl.insert(1, String::new()), // blank line in the middle
                _ => {}
            }
            let tmpl_str = tmpl.join("\n");
            script.push(format!("bar {i}: template {tmpl_str:?}"));
            let pb = ProgressBar::with_draw_target(Some(10), ProgressDrawTarget::term_like(spy.boxed())).with_style(ProgressStyle::with_template(&tmpl_str).unwrap());
            let mut msg = String::new();
            pb.tick();
            for _ in 0..rng.range(0, 5) {
                match rng.below(3) {
                    0 => {
                        msg = text(&mut rng, "m");
                        if rng.chance(1, 5) {
                            msg.push('\n');
                        }
                        pb.set_message(msg.clone());
                        script.push(format!("  set_message({msg:?})"));
                    }
                    1 => {
                        let t = text(&mut rng, "log");
                        pb.println(&t);
                        script.push(format!("  println({t:?})"));
                        expected.extend(phys_rows(&t, width));
                    }
                    _ => pb.inc(1),
                }
            }
            let fin = rng.below(5);
            script.push(format!("  {}", ["finish", "abandon", "finish_and_clear", "finish_with_message", "drop (AndClear)"][fin as usize]));
            match fin {
                0 => pb.finish(),
                1 => pb.abandon(),
                2 => pb.finish_and_clear(),
                3 => {
                    msg = text(&mut rng, "F");
                    pb.finish_with_message(msg.clone());
                }
                _ => {}
            }
            if matches!(fin, 0 | 1 | 3) {
                expected.extend(frame_rows(&tmpl, &msg));
            }
            drop(pb);
        }
    }));
    let w = J::obj().with("terminal_width", width).with("script", J::from(script.clone()));
    let feats = vec!["sequential-bars".to_string()];
    co.hash = fnv1a(format!("{width}{script:?}").as_bytes());
    match res {
        Err(p) => co.verdict = viol("panic", feats, format!("panicked: {}", crate::world::panic_message(&p)), w, replay),
        Ok(()) => {
            let rows = rows_of(&spy);
            let mut want: Vec<String> = expected.iter().map(|r| r.trim_end().to_string()).collect();
            while want.last().map_or(false, |r| r.is_empty()) {
                want.pop();
            }
            if rows != want {
                let first_diff = rows.iter().zip(&want).position(|(a, b)| a != b).unwrap_or(rows.len().min(want.len()));
                co.verdict = viol(
                    "residue-row",
                    feats,
                    format!("{n_bars} bars one after the other on a {width}-column terminal: the screen differs from the log lines and final frames from row {first_diff} on; screen {:?}, expected {:?}", &rows[first_diff.saturating_sub(1)..rows.len().min(first_diff + 4)], &want[first_diff.saturating_sub(1)..want.len().min(first_diff + 4)]),
                    w,
                    replay,
                );
            }
        }
    }
    co.count("sequential_bar_histories", 1);
    co
}

/// C02 (`g` cases): a live member bar leaves its slot - it is added again to the same MultiProgress,
/// added to another one, or given a terminal of its own - while a second thread redraws the very same bar.
/// The second thread's tick is let loose (delay hook) at the K-th synchronisation point of the
/// retargeting call, i.e. at every point of the call where the bar's lock is not held. Whichever call
/// takes effect first, afterwards the bar is shown exactly once, where it now belongs, and the
/// MultiProgress it left shows it no more.
pub fn retarget_window_case(seed: u64, idx: u64) -> CaseOut {
    let mut rng = Rng::derive(seed, 2020, idx);
    let replay = format!("g{seed}:{idx}");
    let kind = rng.below(3); // 0 re-add to the same MultiProgress, 1 add to another one, 2 own terminal
    let fire_at = rng.range(1, 16);
    let helper_op = rng.below(3);
    let names = ["mp.add(member)", "other_mp.add(member)", "member.set_draw_target(terminal)"];
    let witness = J::obj().with("retarget", names[kind as usize]).with("second_thread_runs_at_sync_point", fire_at).with("second_thread_op", ["tick", "set_message", "inc"][helper_op as usize]);
    let feats = vec!["concurrent".to_string(), "multi".to_string(), "retarget-race".to_string()];
    let mut co = CaseOut::held(fnv1a(format!("g{kind}{fire_at}{helper_op}").as_bytes()), true);
    let spy = SpyTerm::new(40, 20, false);
    let spy2 = SpyTerm::new(40, 20, false);
    let armed = Arc::new(AtomicBool::new(false));
    let points = Arc::new(AtomicU64::new(0));
    let done = Arc::new(AtomicBool::new(false));
    let (tx, rx) = mpsc::channel::<()>();
    let tx = Mutex::new(Some(tx));
    let (a2, p2, d2) = (armed.clone(), points.clone(), done.clone());
    let session = vh::Session::new(
        None,
        false,
        Some(Box::new(move |p: &vh::DelayPoint| {
            if p.thread != 0 || !a2.load(SeqCst) || !matches!(p.kind, vh::DelayKind::AfterRelease | vh::DelayKind::BeforeRequest) {
                return;
            }
            if p2.fetch_add(1, SeqCst) + 1 == fire_at {
                if let Some(tx) = tx.lock().unwrap().take() {
                    let _ = tx.send(());
                    // give the other thread a moment to complete its call inside ours (it cannot while we hold the bar)
                    let t0 = Instant::now();
                    while !d2.load(SeqCst) && t0.elapsed() < Duration::from_millis(4) {
                        std::thread::yield_now();
                    }
                }
            }
        })),
    );
    vh::install(Some(session));
    let res = catch_unwind(AssertUnwindSafe(|| -> Option<Result<(), (&'static str, String)>> {
        let style = |n: &str| ProgressStyle::with_template(&format!("{n} {{pos}}/{{len}} {{msg}}")).unwrap();
        let mp = MultiProgress::with_draw_target(ProgressDrawTarget::term_like(spy.boxed()));
        let mp2 = MultiProgress::with_draw_target(ProgressDrawTarget::term_like(spy2.boxed()));
        let b0 = mp.add(ProgressBar::with_draw_target(Some(10), ProgressDrawTarget::hidden()).with_style(style("B0")));
        let b1 = mp.add(ProgressBar::with_draw_target(Some(10), ProgressDrawTarget::hidden()).with_style(style("B1")));
        b0.tick();
        b1.tick();
        let hb = b0.clone();
        let dd = done.clone();
        let helper = std::thread::spawn(move || {
            if rx.recv().is_ok() {
                match helper_op {
                    0 => hb.tick(),
                    1 => hb.set_message("x"),
                    _ => hb.inc(1),
                }
                dd.store(true, SeqCst);
            }
        });
        armed.store(true, SeqCst);
        match kind {
            0 => {
                mp.add(b0.clone());
            }
            1 => {
                mp2.add(b0.clone());
            }
            _ => b0.set_draw_target(ProgressDrawTarget::term_like(spy2.boxed())),
        }
        armed.store(false, SeqCst);
        let reached = points.load(SeqCst) >= fire_at;
        vh::install(None);
        if !reached {
            drop(helper);
            b0.abandon();
            b1.abandon();
            return None;
        }
        let _ = helper.join();
        // both bars draw themselves once more, each where it now lives
        b0.tick();
        b1.tick();
        let count = |s: &SpyTerm, n: &str| rows_of(s).iter().filter(|r| r.starts_with(n)).count();
        let (old_b0, old_b1, new_b0) = (count(&spy, "B0"), count(&spy, "B1"), count(&spy2, "B0"));
        let r = if old_b1 != 1 {
            Err(("member-missing", format!("B1 is shown {old_b1} times after its sibling was retargeted: {:?}", rows_of(&spy))))
        } else if kind == 0 && old_b0 != 1 {
            Err((if old_b0 > 1 { "member-duplicated" } else { "member-missing" }, format!("B0 was added to its MultiProgress again while another thread redrew it: it is shown {old_b0} times: {:?}", rows_of(&spy))))
        } else if kind != 0 && old_b0 != 0 {
            Err(("removed-bar-visible", format!("B0 left the MultiProgress ({}) while another thread redrew it; the MultiProgress still shows it: {:?}", names[kind as usize], rows_of(&spy))))
        } else if kind != 0 && new_b0 != 1 {
            Err((if new_b0 > 1 { "member-duplicated" } else { "member-missing" }, format!("B0 is shown {new_b0} times on its new terminal: {:?}", rows_of(&spy2))))
        } else {
            Ok(())
        };
        b0.abandon();
        b1.abandon();
        Some(r)
    }));
    vh::install(None);
    match res {
        Err(p) => co.verdict = viol("panic", feats, format!("panicked: {}", crate::world::panic_message(&p)), witness, replay),
        Ok(None) => co.nontrivial = false,
        Ok(Some(Err((rule, d)))) => co.verdict = viol(rule, feats, d, witness, replay),
        Ok(Some(Ok(()))) => {
            co.count("retarget_windows_probed", 1);
            co.count("second_thread_completed_inside_the_call", done.load(SeqCst) as u64);
        }
    }
    co
}

/// C19 (`x` cases): the finite geometry space swept completely - every terminal width 1..=300, every line of
/// k*width-1, k*width and k*width+1 columns for k = 1..=8 (the boundary where a line takes one row more).
/// A MultiProgress shows a log line, the long bar A and a short bar B; A, B and A are redrawn, then a
/// second log line is printed. The screen must hold exactly the physical rows of "log", "log2", A's text cut
/// into rows of `width` columns, and "B" - no log line erased, no blank row, nothing left over.
pub fn geometry_sweep_case(idx: u64) -> CaseOut {
    let w = (idx / 24 + 1) as usize;
    let k = ((idx % 24) / 3 + 1) as usize;
    let d = (idx % 3) as i64 - 1;
    let cols = ((k * w) as i64 + d).max(1) as usize;
    let replay = format!("x0:{idx}");
    let witness = J::obj().with("terminal_width", w).with("line_columns", cols).with("rows_expected", (cols + w - 1) / w);
    let feats = vec!["geometry-sweep".to_string(), if d == 0 { "exact-multiple-of-width".to_string() } else { "next-to-a-multiple".to_string() }];
    let mut co = CaseOut::held(idx, true);
    let text: String = (0..cols).map(|i| (b'a' + (i % 26) as u8) as char).collect();
    let rows_a = (cols + w - 1) / w;
    let log_rows = |s: &str| (s.len() + w - 1) / w;
    let height = (rows_a + log_rows("log") + log_rows("log2") + 1 + 4) as u16;
    let spy = SpyTerm::new(w as u16, height, false);
    spy.state().snap_on_flush = false;
    let res = catch_unwind(AssertUnwindSafe(|| {
        let mp = MultiProgress::with_draw_target(ProgressDrawTarget::term_like(spy.boxed()));
        let a = mp.add(ProgressBar::with_draw_target(Some(10), ProgressDrawTarget::hidden()).with_style(ProgressStyle::with_template("{msg}").unwrap()));
        let b = mp.add(ProgressBar::with_draw_target(Some(10), ProgressDrawTarget::hidden()).with_style(ProgressStyle::with_template("B").unwrap()));
        let _ = mp.println("log");
        a.set_message(text.clone());
        b.tick();
        a.tick();
        b.tick();
        a.tick();
        let _ = mp.println("log2");
        a.tick();
        let rows = rows_of(&spy);
        a.abandon();
        b.abandon();
        std::mem::forget(a);
        std::mem::forget(b);
        std::mem::forget(mp);
        rows
    }));
    let chunk = |s: &str| -> Vec<String> { s.as_bytes().chunks(w).map(|c| String::from_utf8_lossy(c).to_string()).collect() };
    match res {
        Err(p) => co.verdict = viol("panic", feats, format!("panicked: {}", crate::world::panic_message(&p)), witness, replay),
        Ok(rows) => {
            let mut want: Vec<String> = Vec::new();
            want.extend(chunk("log"));
            want.extend(chunk("log2"));
            want.extend(chunk(&text));
            want.extend(chunk("B"));
            if rows != want {
                let first = rows.iter().zip(want.iter()).position(|(a, b)| a != b).unwrap_or(rows.len().min(want.len()));
                let rule = if rows.len() < want.len() && !rows.iter().any(|r| r.starts_with("lo")) { "log-missing" } else { "row-accounting" };
                co.verdict = viol(
                    rule,
                    feats,
                    format!(
                        "width {w}, a bar line of {cols} columns ({rows_a} rows): the screen has {} rows, expected {}; first difference at row {first}: {:?} vs {:?}",
                        rows.len(),
                        want.len(),
                        rows.get(first).map(|r| r.chars().take(30).collect::<String>()),
                        want.get(first).map(|r| r.chars().take(30).collect::<String>())
                    ),
                    witness,
                    replay,
                );
            }
            co.count("geometry_points_swept", 1);
        }
    }
    co
}

// ------------------------------------------------------------------------------------------------------
// C03: bottom alignment with spare rows (round 11)
// ------------------------------------------------------------------------------------------------------
// A bottom-aligned MultiProgress keeps the height its region once had: when members are cleared, blank
// filler rows remain above the live bars. Logs printed from then on have to go *above* the filler and must
// never be counted among the rows the next redraw erases. History: n >= 3 one-row members drawn, two or
// more cleared (finish_and_clear or remove), then a few println events (one or two lines each, through a
// member or the MultiProgress) with redraws in between. Oracle on physical rows after every step: every
// line logged so far is on the screen exactly once, in order, above every live bar row.

pub fn bottom_spare_case(seed: u64, idx: u64) -> CaseOut {
    use indicatif::MultiProgressAlignment;
    let mut rng = Rng::derive(seed, 311, idx);
    let replay = format!("b{seed}:{idx}");
    let n = rng.range(3, 6) as usize;
    let keep = rng.usize(n);
    let mut script: Vec<String> = Vec::new();
    let clock = Arc::new(AtomicU64::new(3_000_000_000));
    crate::world::install_session(&clock);
    let mut co = CaseOut::held(0, true);
    let spy = SpyTerm::new(30, 40, false);
    spy.state().snap_on_flush = false;
    let feats = vec!["align-bottom".to_string(), "spare-rows".to_string()];
    let res = catch_unwind(AssertUnwindSafe(|| -> Verdict {
        let mp = MultiProgress::with_draw_target(ProgressDrawTarget::term_like(spy.boxed()));
        mp.set_alignment(MultiProgressAlignment::Bottom);
        let style = ProgressStyle::with_template("{prefix} {pos}/{len}").unwrap();
        let bars: Vec<ProgressBar> = (0..n)
            .map(|i| {
                let pb = mp.add(ProgressBar::new(10).with_style(style.clone()));
                pb.set_prefix(format!("bar{i}"));
                pb.tick();
                pb
            })
            .collect();
        let mut live: Vec<usize> = (0..n).collect();
        let mut cleared = 0;
        for i in 0..n {
            if i != keep && (cleared < 2 || rng.chance(1, 2)) {
                if rng.chance(2, 3) {
                    bars[i].finish_and_clear();
                    script.push(format!("bar{i}.finish_and_clear()"));
                } else {
                    mp.remove(&bars[i]);
                    script.push(format!("mp.remove(bar{i})"));
                }
                live.retain(|x| *x != i);
                cleared += 1;
            }
        }
        let mut logged: Vec<String> = Vec::new();
        let steps = rng.range(2, 8);
        for s in 0..steps {
            clock.fetch_add(1_000_000_000, SeqCst);
            match rng.below(4) {
                0 | 1 => {
                    let lines = rng.range(1, 2);
                    let text: Vec<String> = (0..lines).map(|k| format!("log{s}-{k}")).collect();
                    let joined = text.join("\n");
                    if rng.chance(1, 2) {
                        let _ = mp.println(&joined);
                        script.push(format!("mp.println({joined:?})"));
                    } else {
                        let b = *rng.pick(&live);
                        bars[b].println(&joined);
                        script.push(format!("bar{b}.println({joined:?})"));
                    }
                    logged.extend(text);
                }
                2 => {
                    let b = *rng.pick(&live);
                    bars[b].inc(1);
                    script.push(format!("bar{b}.inc(1)"));
                }
                _ => {
                    let b = *rng.pick(&live);
                    bars[b].tick();
                    script.push(format!("bar{b}.tick()"));
                }
            }
            let rows = rows_of(&spy);
            let pos_of = |l: &String| -> Vec<usize> { rows.iter().enumerate().filter(|(_, r)| *r == l).map(|(i, _)| i).collect() };
            let first_bar = rows.iter().position(|r| r.starts_with("bar"));
            let mut last = None;
            for l in &logged {
                let at = pos_of(l);
                let w = J::obj().with("script", format!("{script:?}")).with("screen", format!("{rows:?}"));
                if at.len() != 1 {
                    return viol(
                        if at.is_empty() { "log-missing" } else { "log-duplicated" },
                        feats.clone(),
                        format!("bottom-aligned region with spare rows: log line {l:?} is on the screen {} times after {:?}; screen {rows:?}", at.len(), script.last()),
                        w,
                        replay.clone(),
                    );
                }
                if last.map_or(false, |p| at[0] < p) || first_bar.map_or(false, |fb| at[0] > fb) {
                    return viol("log-out-of-order", feats.clone(), format!("log line {l:?} is out of place (row {}); screen {rows:?}", at[0]), w, replay.clone());
                }
                last = Some(at[0]);
            }
        }
        drop(bars);
        drop(mp);
        Verdict::Held
    }));
    match res {
        Ok(v) => co.verdict = v,
        Err(p) => co.verdict = viol("panic", feats, format!("panicked: {}", crate::world::panic_message(&p)), J::obj().with("script", format!("{script:?}")), replay),
    }
    vh::install(None);
    co.hash = fnv1a(format!("{script:?}").as_bytes());
    co.count("bottom_spare_histories", 1);
    co
}
