//! C06: hidden or non-terminal targets are silent and state-equivalent.
//! In-process lanes: hidden target, member of a hidden MultiProgress, bar removed from a visible
//! MultiProgress (spy call counter must not move). Subprocess lane: the real `console::Term` code
//! path with stdout/stderr on pipes (not a tty): not a single byte may arrive.

use super::{PropResult, RunCfg};
use crate::json::J;
use crate::prng::{fnv1a, Rng};
use crate::report::{workers, CaseOut, Report, Verdict, Violation};
use crate::spy::SpyTerm;
use indicatif::{MultiProgress, ProgressBar, ProgressDrawTarget, ProgressFinish, ProgressIterator, ProgressStyle};
use std::io::Read;
use std::panic::{catch_unwind, AssertUnwindSafe};
use std::process::{Command, Stdio};
use std::time::Duration;

fn viol(rule: &str, feats: Vec<String>, detail: String, w: J, replay: String) -> Verdict {
    Verdict::Violated(Box::new(Violation { rule: rule.into(), features: feats, detail, witness: w, replay }))
}

#[derive(Clone, Copy, Debug, PartialEq)]
pub enum HiddenKind {
    HiddenTarget,
    HiddenMulti,
    RemovedFromMulti,
    /// a live member of a visible MultiProgress handed to a hidden one (`hidden_mp.add(bar)`)
    MovedToHiddenMulti,
    /// a live, visible standalone bar given a hidden target (`set_draw_target`)
    RetargetedToHidden,
    /// a live member of a visible MultiProgress given a hidden target of its own
    MemberRetargetedToHidden,
    /// a member of a HIDDEN MultiProgress given a hidden target of its own; afterwards the MultiProgress
    /// receives a terminal: the bar no longer belongs to it and must stay silent
    HiddenMemberRetargetedThenMultiRevealed,
    /// the same, the bar having been handed to a second hidden MultiProgress instead
    HiddenMemberMovedThenMultiRevealed,
    // child process only:
    StderrNotTty,
    StdoutNotTty,
    StderrHzNotTty,
    StdoutHzNotTty,
    MultiNotTty,
}

impl HiddenKind {
    fn name(&self) -> &'static str {
        match self {
            HiddenKind::HiddenTarget => "hidden-target",
            HiddenKind::HiddenMulti => "member-of-hidden-multi",
            HiddenKind::RemovedFromMulti => "removed-from-multi",
            HiddenKind::MovedToHiddenMulti => "moved-to-hidden-multi",
            HiddenKind::RetargetedToHidden => "retargeted-to-hidden",
            HiddenKind::MemberRetargetedToHidden => "member-retargeted-to-hidden",
            HiddenKind::HiddenMemberRetargetedThenMultiRevealed => "hidden-member-retargeted-then-multi-revealed",
            HiddenKind::HiddenMemberMovedThenMultiRevealed => "hidden-member-moved-then-multi-revealed",
            HiddenKind::StderrNotTty => "stderr-not-a-tty",
            HiddenKind::StdoutNotTty => "stdout-not-a-tty",
            HiddenKind::StderrHzNotTty => "stderr-with-hz-not-a-tty",
            HiddenKind::StdoutHzNotTty => "stdout-with-hz-not-a-tty",
            HiddenKind::MultiNotTty => "multi-on-non-tty",
        }
    }
}

struct Pair {
    hidden: ProgressBar,
    twin: ProgressBar,
    /// spy behind which nothing may happen for the hidden bar (RemovedFromMulti)
    watch: Option<SpyTerm>,
    _mp: Option<MultiProgress>,
    _twin_spy: SpyTerm,
}

fn style() -> ProgressStyle {
    ProgressStyle::with_template("{prefix} {spinner} {msg} {pos}/{len} {bar:10}").unwrap()
}

fn make_pair(kind: HiddenKind, len: Option<u64>, fin: &ProgressFinish) -> Pair {
    let twin_spy = SpyTerm::new(80, 30, false);
    twin_spy.state().snap_on_flush = false;
    let twin = ProgressBar::with_draw_target(len, ProgressDrawTarget::term_like(twin_spy.boxed())).with_style(style()).with_finish(fin.clone());
    let mk = |t: ProgressDrawTarget| ProgressBar::with_draw_target(len, t).with_style(style()).with_finish(fin.clone());
    let (hidden, watch, mp) = match kind {
        HiddenKind::HiddenTarget => (mk(ProgressDrawTarget::hidden()), None, None),
        HiddenKind::HiddenMulti => {
            let mp = MultiProgress::with_draw_target(ProgressDrawTarget::hidden());
            let pb = mp.add(mk(ProgressDrawTarget::hidden()));
            (pb, None, Some(mp))
        }
        HiddenKind::RemovedFromMulti => {
            let spy = SpyTerm::new(80, 30, false);
            spy.state().snap_on_flush = false;
            let mp = MultiProgress::with_draw_target(ProgressDrawTarget::term_like(spy.boxed()));
            let other = mp.add(ProgressBar::with_draw_target(Some(5), ProgressDrawTarget::hidden()).with_style(style()));
            let pb = mp.add(mk(ProgressDrawTarget::hidden()));
            other.tick();
            pb.tick();
            mp.remove(&pb);
            std::mem::forget(other); // keep the sibling alive and quiet
            (pb, Some(spy), Some(mp))
        }
        HiddenKind::MovedToHiddenMulti | HiddenKind::MemberRetargetedToHidden => {
            let spy = SpyTerm::new(80, 30, false);
            spy.state().snap_on_flush = false;
            let mp = MultiProgress::with_draw_target(ProgressDrawTarget::term_like(spy.boxed()));
            let other = mp.add(ProgressBar::with_draw_target(Some(5), ProgressDrawTarget::hidden()).with_style(style()));
            let pb = mp.add(mk(ProgressDrawTarget::hidden()));
            other.tick();
            pb.tick();
            if kind == HiddenKind::MovedToHiddenMulti {
                let hidden_mp = MultiProgress::with_draw_target(ProgressDrawTarget::hidden());
                let _ = hidden_mp.add(pb.clone());
                std::mem::forget(hidden_mp);
            } else {
                pb.set_draw_target(ProgressDrawTarget::hidden());
            }
            std::mem::forget(other);
            (pb, Some(spy), Some(mp))
        }
        HiddenKind::HiddenMemberRetargetedThenMultiRevealed | HiddenKind::HiddenMemberMovedThenMultiRevealed => {
            let spy = SpyTerm::new(80, 30, false);
            spy.state().snap_on_flush = false;
            let mp = MultiProgress::with_draw_target(ProgressDrawTarget::hidden());
            let pb = mp.add(mk(ProgressDrawTarget::hidden()));
            pb.tick();
            if kind == HiddenKind::HiddenMemberRetargetedThenMultiRevealed {
                pb.set_draw_target(ProgressDrawTarget::hidden());
            } else {
                let hidden_mp = MultiProgress::with_draw_target(ProgressDrawTarget::hidden());
                let _ = hidden_mp.add(pb.clone());
                std::mem::forget(hidden_mp);
            }
            mp.set_draw_target(ProgressDrawTarget::term_like(spy.boxed()));
            (pb, Some(spy), Some(mp))
        }
        HiddenKind::RetargetedToHidden => {
            let spy = SpyTerm::new(80, 30, false);
            spy.state().snap_on_flush = false;
            let pb = mk(ProgressDrawTarget::term_like(spy.boxed()));
            pb.tick();
            pb.set_draw_target(ProgressDrawTarget::hidden());
            (pb, Some(spy), None)
        }
        HiddenKind::StderrNotTty => (ProgressBar::with_draw_target(len, ProgressDrawTarget::stderr()).with_style(style()).with_finish(fin.clone()), None, None),
        HiddenKind::StdoutNotTty => (mk(ProgressDrawTarget::stdout()), None, None),
        HiddenKind::StderrHzNotTty => (mk(ProgressDrawTarget::stderr_with_hz(60)), None, None),
        HiddenKind::StdoutHzNotTty => (mk(ProgressDrawTarget::stdout_with_hz(5)), None, None),
        HiddenKind::MultiNotTty => {
            let mp = MultiProgress::new();
            let pb = mp.add(mk(ProgressDrawTarget::hidden()));
            (pb, None, Some(mp))
        }
    };
    Pair { hidden, twin, watch, _mp: mp, _twin_spy: twin_spy }
}

fn one_history(kind: HiddenKind, rng: &mut Rng, replay: &str) -> (Verdict, u64, Vec<String>) {
    let len = match rng.below(4) {
        0 => None,
        1 => Some(0),
        _ => Some(rng.range(1, 500)),
    };
    let fin = match rng.below(4) {
        0 => ProgressFinish::AndLeave,
        1 => ProgressFinish::WithMessage("done".into()),
        2 => ProgressFinish::Abandon,
        _ => ProgressFinish::AndClear,
    };
    let pair = make_pair(kind, len, &fin);
    let base_calls = pair.watch.as_ref().map(|s| s.calls());
    let mut history: Vec<String> = Vec::new();
    let n = rng.range(2, 30);
    let mut ops = 0u64;
    let feats = vec![kind.name().to_string()];
    for _ in 0..n {
        let k = rng.below(28);
        let arg = if rng.chance(1, 6) { rng.u64_biased() } else { rng.range(0, 300) };
        // (texts with tabs: message()/prefix() return the expanded text, so the tab width is state too)
        let text = if rng.chance(1, 3) { format!("t\t{}\tz", rng.range(0, 99)) } else { format!("t{}", rng.range(0, 999)) };
        let tabw = *rng.pick(&[0usize, 1, 2, 4, 8, 13]);
        let tmpl = *rng.pick(&["{prefix}|{msg}|{pos}/{len}", "a\tb {msg}", "{wide_msg}\n{pos}"]);
        let name = match k {
            0 => "tick".to_string(),
            1 | 2 => format!("inc({arg})"),
            3 => format!("dec({arg})"),
            4 | 5 => format!("set_position({arg})"),
            6 => format!("set_length({arg})"),
            7 => format!("inc_length({arg})"),
            8 => format!("dec_length({arg})"),
            9 => "unset_length".to_string(),
            10 | 11 => format!("set_message({text:?})"),
            12 => format!("set_prefix({text:?})"),
            13 => format!("println({text:?})"),
            14 => "suspend".to_string(),
            15 => "reset".to_string(),
            16 => "finish".to_string(),
            17 => format!("finish_with_message({text:?})"),
            18 => "finish_and_clear".to_string(),
            19 => "abandon".to_string(),
            20 => "steady_tick(1ms) for 3ms".to_string(),
            21 => "wrap_iter(0..5)".to_string(),
            22 | 23 => format!("set_tab_width({tabw})"),
            24 => format!("set_style({tmpl:?})"),
            25 => format!("update(set_pos({arg}), set_len({}))", arg / 2),
            26 => "finish_using_style".to_string(),
            _ => "reset_eta + reset_elapsed".to_string(),
        };
        history.push(name.clone());
        let run = |pb: &ProgressBar| -> Option<u64> {
            match k {
                0 => pb.tick(),
                1 | 2 => pb.inc(arg),
                3 => pb.dec(arg),
                4 | 5 => pb.set_position(arg),
                6 => pb.set_length(arg),
                7 => pb.inc_length(arg),
                8 => pb.dec_length(arg),
                9 => pb.unset_length(),
                10 | 11 => pb.set_message(text.clone()),
                12 => pb.set_prefix(text.clone()),
                13 => pb.println(&text),
                14 => return Some(pb.suspend(|| 4242)),
                15 => pb.reset(),
                16 => pb.finish(),
                17 => pb.finish_with_message(text.clone()),
                18 => pb.finish_and_clear(),
                19 => pb.abandon(),
                20 => {
                    pb.enable_steady_tick(Duration::from_millis(1));
                    std::thread::sleep(Duration::from_millis(3));
                    pb.disable_steady_tick();
                }
                21 => {
                    let s: u64 = pb.wrap_iter(0..5u64).sum();
                    return Some(s);
                }
                22 | 23 => pb.set_tab_width(tabw),
                24 => pb.set_style(ProgressStyle::with_template(tmpl).unwrap()),
                25 => pb.update(|st| {
                    st.set_pos(arg);
                    st.set_len(arg / 2);
                }),
                26 => pb.finish_using_style(),
                _ => {
                    pb.reset_eta();
                    pb.reset_elapsed();
                }
            }
            None
        };
        let r = catch_unwind(AssertUnwindSafe(|| (run(&pair.hidden), run(&pair.twin))));
        let w = || J::obj().with("kind", kind.name()).with("initial_length", len).with("history", J::from(history.clone()));
        let (rh, rt) = match r {
            Ok(x) => x,
            Err(p) => {
                let v = viol("panic", feats.clone(), format!("{name} panicked: {}", crate::world::panic_message(&p)), w(), replay.to_string());
                std::mem::forget(pair);
                return (v, ops, history);
            }
        };
        ops += 1;
        if rh != rt {
            return (viol("return-value-differs", feats.clone(), format!("{name} returned {rh:?} on the hidden bar, {rt:?} on the visible twin"), w(), replay.to_string()), ops, history);
        }
        let (h, t) = (&pair.hidden, &pair.twin);
        let a = (h.position(), h.length(), h.message(), h.prefix(), h.is_finished());
        let b = (t.position(), t.length(), t.message(), t.prefix(), t.is_finished());
        if a != b {
            return (viol("state-differs-from-visible-twin", feats.clone(), format!("after {name}: hidden bar {a:?}, visible twin {b:?}"), w(), replay.to_string()), ops, history);
        }
        // a bar without a terminal says so (and the twin, which has one, does not)
        if !h.is_hidden() || t.is_hidden() {
            return (viol("is-hidden-wrong", feats.clone(), format!("after {name}: is_hidden() = {} on the bar without terminal, {} on the visible twin", h.is_hidden(), t.is_hidden()), w(), replay.to_string()), ops, history);
        }
        if let (Some(spy), Some(base)) = (&pair.watch, base_calls) {
            if spy.calls() != base {
                return (
                    viol("hidden-bar-touched-terminal", feats.clone(), format!("{name} on a bar that no longer has a terminal ({}) caused {} calls on the terminal it used to draw on", kind.name(), spy.calls() - base), w(), replay.to_string()),
                    ops,
                    history,
                );
            }
        }
    }
    // dropping the hidden bar must be silent too
    let Pair { hidden, twin, watch, _mp, _twin_spy } = pair;
    drop(hidden);
    drop(twin);
    if let (Some(spy), Some(base)) = (&watch, base_calls) {
        if spy.calls() != base {
            return (
                viol("hidden-bar-touched-terminal", feats, format!("dropping the removed bar caused {} terminal calls", spy.calls() - base), J::from(history.clone()), replay.to_string()),
                ops,
                history,
            );
        }
    }
    (Verdict::Held, ops, history)
}

fn inproc_case(seed: u64, idx: u64) -> CaseOut {
    let mut rng = Rng::derive(seed, 6, idx);
    let kind = [HiddenKind::HiddenTarget, HiddenKind::HiddenMulti, HiddenKind::RemovedFromMulti, HiddenKind::MovedToHiddenMulti, HiddenKind::RetargetedToHidden, HiddenKind::MemberRetargetedToHidden, HiddenKind::HiddenMemberRetargetedThenMultiRevealed, HiddenKind::HiddenMemberMovedThenMultiRevealed][(idx % 8) as usize];
    let (v, ops, history) = one_history(kind, &mut rng, &format!("i{seed}:{idx}"));
    let mut co = CaseOut::held(fnv1a(format!("{kind:?}{history:?}").as_bytes()), ops >= 2);
    co.verdict = v;
    co.count("ops_compared_with_visible_twin", ops);
    co.see("hidden_kinds", kind as u64);
    if idx < 3 {
        co.sample = Some(J::obj().with("kind", kind.name()).with("history", J::from(history)));
    }
    co
}

/// Child mode: run `n` histories on real non-tty `Term` targets; the parent counts bytes on the pipes.
pub fn child_main(seed: u64, first: u64, n: u64, out: &str) {
    let mut rep = Report::default();
    for i in first..first + n {
        let mut rng = Rng::derive(seed, 66, i);
        let kind = [HiddenKind::StderrNotTty, HiddenKind::StdoutNotTty, HiddenKind::StderrHzNotTty, HiddenKind::MultiNotTty, HiddenKind::StdoutHzNotTty][(i % 5) as usize];
        let (v, ops, history) = one_history(kind, &mut rng, &format!("p{seed}:{i}"));
        let mut co = CaseOut::held(fnv1a(format!("{kind:?}{history:?}").as_bytes()), ops >= 2);
        co.verdict = v;
        co.count("ops_compared_with_visible_twin", ops);
        co.count("non_tty_histories", 1);
        co.see("hidden_kinds", kind as u64);
        if i < first + 2 {
            co.sample = Some(J::obj().with("kind", kind.name()).with("history", J::from(history)));
        }
        rep.add(i, co);
    }
    let j = rep.to_json("C06", "child", false);
    std::fs::write(out, j.render()).expect("child result");
}

/// Removal race: one thread removes a bar from a visible MultiProgress while another keeps calling
/// into that bar. Every call on the bar is linearised either before the removal (then the frame it
/// paints contains the bar) or after it (then it must not touch the terminal at all): a frame
/// flushed by the caller thread that does NOT show the bar is a terminal operation of a removed bar.
fn remove_race_case(seed: u64, idx: u64) -> CaseOut {
    use indicatif::verif_hooks as vh;
    use std::sync::atomic::{AtomicBool, AtomicU64, Ordering};
    use std::sync::Arc;
    let mut rng = Rng::derive(seed, 606, idx);
    let replay = format!("r{seed}:{idx}");
    let mut co = CaseOut::held(fnv1a(format!("race{seed}:{idx}").as_bytes()), true);
    let spy = SpyTerm::new(60, 30, false);
    {
        let mut st = spy.state();
        st.snap_on_flush = true;
        st.record_flush_threads = true;
    }
    let word = Arc::new(AtomicU64::new(crate::prng::splitmix(seed ^ idx) | 1));
    let w2 = word.clone();
    let session = vh::Session::new(
        None,
        false,
        Some(Box::new(move |p: &vh::DelayPoint| {
            let mut x = w2.load(Ordering::Relaxed);
            x ^= x << 13;
            x ^= x >> 7;
            x ^= x << 17;
            w2.store(x, Ordering::Relaxed);
            if matches!(p.kind, vh::DelayKind::BeforeRequest | vh::DelayKind::AfterRelease) && x % 3 == 0 {
                std::thread::sleep(Duration::from_micros(x % 300));
            }
        })),
    );
    let n_ops = rng.range(20, 120);
    let pre = rng.range(0, 30);
    let (tx, rx) = std::sync::mpsc::channel();
    let spy2 = spy.clone();
    std::thread::spawn(move || {
        vh::install(Some(session));
        let mp = MultiProgress::with_draw_target(ProgressDrawTarget::term_like(spy2.boxed()));
        let mk = |i: usize| {
            let pb = mp.add(ProgressBar::with_draw_target(Some(100), ProgressDrawTarget::hidden()));
            pb.set_style(ProgressStyle::with_template(&format!("B{i} {{msg}}")).unwrap());
            pb.set_message("x");
            pb
        };
        let other = mk(0);
        let victim = mk(1);
        other.tick();
        victim.tick();
        let removed = Arc::new(AtomicBool::new(false));
        let (v2, r2) = (victim.clone(), removed.clone());
        let user = vh::thread::spawn(move || {
            let mut after_removed_calls = 0u64;
            for i in 0..n_ops {
                let was_removed = r2.load(Ordering::SeqCst);
                v2.set_message(format!("m{i}"));
                if was_removed {
                    after_removed_calls += 1;
                }
            }
            after_removed_calls
        });
        let user_id = user.logical_id();
        for _ in 0..pre {
            std::thread::yield_now();
        }
        mp.remove(&victim);
        let calls_at_return = spy2.calls();
        removed.store(true, Ordering::SeqCst);
        let after = user.join().unwrap_or(0);
        let _ = tx.send((user_id, calls_at_return, after));
        std::mem::forget(other);
        drop(victim);
        drop(mp);
    });
    let Ok((user_id, _calls_at_return, after_calls)) = rx.recv_timeout(Duration::from_secs(30)) else {
        co.verdict = Verdict::Inconclusive("remove race did not complete within the watchdog".into());
        return co;
    };
    let st = spy.state();
    let snaps = &st.snaps;
    let threads = &st.flush_logical;
    let w = J::obj().with("variant", "remove-race").with("calls_by_user_thread", n_ops).with("calls_started_after_remove_returned", after_calls);
    let mut user_frames = 0u64;
    for (i, s) in snaps.iter().enumerate() {
        if threads.get(i).copied().flatten() == user_id && user_id.is_some() {
            user_frames += 1;
            if !s.rows.iter().any(|r| r.starts_with("B1 ")) {
                co.verdict = viol(
                    "removed-bar-touched-terminal",
                    vec!["remove-race".into(), "concurrent".into()],
                    format!("a call on the bar painted frame {i} {:?} although the bar is no longer a member (it is not part of the frame it painted itself)", s.rows),
                    w,
                    replay,
                );
                return co;
            }
        }
    }
    co.count("remove_race_runs", 1);
    co.count("frames_painted_by_calls_on_the_bar_being_removed", user_frames);
    co.count("calls_started_after_remove_returned", after_calls);
    co
}

pub fn run(cfg: &RunCfg) -> PropResult {
    let mut report;
    if let Some(case) = &cfg.case {
        let kind = case.chars().next().unwrap_or('i');
        let mut it = case[1..].split(':');
        let seed: u64 = it.next().and_then(|s| s.parse().ok()).unwrap_or(cfg.seed);
        let idx: u64 = it.next().and_then(|s| s.parse().ok()).unwrap_or(0);
        report = Report::default();
        if kind == 'i' {
            report.add(idx, inproc_case(seed, idx));
        } else if kind == 'r' {
            report.add(idx, remove_race_case(seed, idx));
        } else {
            run_children(&mut report, seed, idx, 1, 1);
        }
    } else {
        let n = if cfg.thorough { 600_000 } else { 20_000 };
        report = crate::report::run_parallel_tagged('i', n, workers(), |i| inproc_case(cfg.seed, i));
        let nr = if cfg.thorough { 30_000 } else { 600 };
        report.merge(crate::report::run_parallel_tagged('r', nr, 8, |i| remove_race_case(cfg.seed, i)));
        let (children, per) = if cfg.thorough { (16, 6000) } else { (8, 400) };
        run_children(&mut report, cfg.seed, 0, children, per);
    }
    PropResult {
        report,
        rule: "each evaluation: a 2-30-step history (tick/inc/dec/set_position/length ops/texts with tabs/set_tab_width/set_style/update/println/suspend/reset/reset_eta/reset_elapsed/finish*/finish_using_style/abandon/1 ms steady tick/wrap_iter, boundary-biased arguments) applied in lock-step to a hidden bar and to a visible twin on a spy terminal; hidden kinds: hidden() target, member of a hidden MultiProgress, bar removed from a visible MultiProgress, live member of a visible MultiProgress handed to a hidden one, live standalone bar or member given a hidden target through set_draw_target (spy call counter of the old terminal watched), and - in child processes whose stdout/stderr are pipes - stderr(), stdout(), stderr_with_hz(60) and MultiProgress::new(); getters and return values compared after every step; every byte on the child's pipes is a violation; non-trivial = at least 2 steps executed".into(),
        exhaustive: false,
    }
}

fn run_children(report: &mut Report, seed: u64, first: u64, children: u64, per: u64) {
    let exe = std::env::current_exe().expect("own path");
    let dir = std::env::var("VH_SCRATCH").map(std::path::PathBuf::from).unwrap_or_else(|_| std::env::temp_dir());
    let mut procs = Vec::new();
    for c in 0..children {
        let out = dir.join(format!("vh-c06-{}-{c}.json", std::process::id()));
        let child = Command::new(&exe)
            .args(["C06-child", "--seed", &seed.to_string(), "--first", &(first + c * per).to_string(), "--count", &per.to_string(), "--out", out.to_str().unwrap()])
            .stdin(Stdio::null())
            .stdout(Stdio::piped())
            .stderr(Stdio::piped())
            .spawn();
        procs.push((c, out, child));
    }
    for (c, out, child) in procs {
        let mut co = CaseOut::held(fnv1a(format!("child{c}").as_bytes()), true);
        match child {
            Err(e) => co.verdict = Verdict::Inconclusive(format!("cannot spawn child: {e}")),
            Ok(mut ch) => {
                let mut so = Vec::new();
                let mut se = Vec::new();
                let mut stdout = ch.stdout.take().unwrap();
                let mut stderr = ch.stderr.take().unwrap();
                let t = std::thread::spawn(move || {
                    let mut b = Vec::new();
                    let _ = stderr.read_to_end(&mut b);
                    b
                });
                let _ = stdout.read_to_end(&mut so);
                se.extend(t.join().unwrap_or_default());
                let status = ch.wait();
                co.count("child_processes", 1);
                co.count("bytes_on_child_pipes", (so.len() + se.len()) as u64);
                let replay = format!("p{seed}:{}", first + c * per);
                if !status.map(|s| s.success()).unwrap_or(false) {
                    co.verdict = Verdict::Inconclusive(format!("child {c} did not exit cleanly: {}", String::from_utf8_lossy(&se).chars().take(200).collect::<String>()));
                } else if !so.is_empty() || !se.is_empty() {
                    co.verdict = viol(
                        "bytes-written-to-non-tty",
                        vec!["not-a-tty".into()],
                        format!(
                            "{} bytes on stdout and {} bytes on stderr of a child whose stdout/stderr are pipes: {:?}",
                            so.len(),
                            se.len(),
                            String::from_utf8_lossy(if so.is_empty() { &se } else { &so }).chars().take(120).collect::<String>()
                        ),
                        J::obj().with("child", c).with("histories", per),
                        replay,
                    );
                } else if let Ok(text) = std::fs::read_to_string(&out) {
                    // merge what the child observed (violations are passed through verbatim)
                    merge_child(report, &text, c);
                } else {
                    co.verdict = Verdict::Inconclusive(format!("child {c} left no result"));
                }
                let _ = std::fs::remove_file(&out);
            }
        }
        report.add(1_000_000 + c, co);
    }
}

/// Minimal extraction from the child's result JSON (written by this same program).
fn merge_child(report: &mut Report, text: &str, c: u64) {
    let num = |key: &str| -> u64 {
        text.find(&format!("\"{key}\":"))
            .map(|p| text[p + key.len() + 3..].chars().take_while(|c| c.is_ascii_digit()).collect::<String>())
            .and_then(|s| s.parse().ok())
            .unwrap_or(0)
    };
    let evals = num("evaluations");
    let ops = num("ops_compared_with_visible_twin");
    let mut co = CaseOut::held(fnv1a(format!("childsum{c}").as_bytes()), true);
    co.count("non_tty_histories", evals);
    co.count("ops_compared_with_visible_twin", ops);
    if !text.contains("\"violations\":[]") {
        let vpos = text.find("\"violations\":[").unwrap_or(0);
        let vt = &text[vpos..];
        let detail = vt.find("\"detail\":").map(|p| vt[p..].chars().take(400).collect::<String>()).unwrap_or_default();
        let rule = vt.find("\"rule\":\"").map(|p| vt[p + 8..].chars().take_while(|c| *c != '"').collect::<String>()).unwrap_or("child-violation".into());
        co.verdict = viol(&rule, vec!["not-a-tty".into()], format!("in child {c}: {detail}"), J::from(format!("child {c}")), format!("p{c}"));
    }
    report.add(2_000_000 + c, co);
}
