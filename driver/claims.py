"""What each check claims (feeds MANIFEST.json)."""

SCREEN_NOTE = ("Trusted: the harness's VScreen terminal model (cross-checked against the vt100 crate at every flush; a "
               "disagreement makes the case inconclusive), the small shadow models, and the generators' reach. "
               "Histories are seeded random with boundary-biased texts; nothing outside them is covered.")

CLAIMS = {
    "C01": {
        "text": "Exploration: seeded random single-bar histories run against the real library on a spy terminal; at every flush the full screen (scrollback included) must equal printed lines + current frame row for row, and the cursor must be on a fresh line. Held on N executions, not a proof.",
        "design_ref": "DESIGN.md §4 C01",
        "note": SCREEN_NOTE,
        "technique": "runtime monitoring: lock-step reference model + terminal-emulator oracle at every flush",
    },
}

ALL = [f"C{n:02d}" for n in range(1, 20)]
NOT_APPLICABLE = {p: "check not built yet in this round (work in progress; see DESIGN.md)" for p in ALL if p not in CLAIMS}
