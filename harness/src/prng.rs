//! Small deterministic PRNG (splitmix64 seeding + xorshift64*). No external crates.

#[derive(Clone, Debug)]
pub struct Rng(u64);

pub fn splitmix(mut x: u64) -> u64 {
    x = x.wrapping_add(0x9E37_79B9_7F4A_7C15);
    let mut z = x;
    z = (z ^ (z >> 30)).wrapping_mul(0xBF58_476D_1CE4_E5B9);
    z = (z ^ (z >> 27)).wrapping_mul(0x94D0_49BB_1331_11EB);
    z ^ (z >> 31)
}

impl Rng {
    pub fn new(seed: u64) -> Self {
        let s = splitmix(seed);
        Self(if s == 0 { 0x1234_5678_9ABC_DEF1 } else { s })
    }

    /// Independent stream for (seed, lane, index).
    pub fn derive(seed: u64, lane: u64, index: u64) -> Self {
        Self::new(splitmix(seed ^ splitmix(lane.wrapping_mul(0xA24B_AED4_963E_E407)) ^ splitmix(index)))
    }

    pub fn next_u64(&mut self) -> u64 {
        let mut x = self.0;
        x ^= x >> 12;
        x ^= x << 25;
        x ^= x >> 27;
        self.0 = x;
        x.wrapping_mul(0x2545_F491_4F6C_DD1D)
    }

    /// Uniform in 0..n (n > 0).
    pub fn below(&mut self, n: u64) -> u64 {
        debug_assert!(n > 0);
        ((self.next_u64() as u128 * n as u128) >> 64) as u64
    }

    pub fn range(&mut self, lo: u64, hi_incl: u64) -> u64 {
        lo + self.below(hi_incl - lo + 1)
    }

    pub fn usize(&mut self, n: usize) -> usize {
        self.below(n as u64) as usize
    }

    pub fn chance(&mut self, num: u64, den: u64) -> bool {
        self.below(den) < num
    }

    pub fn pick<'a, T>(&mut self, xs: &'a [T]) -> &'a T {
        &xs[self.usize(xs.len())]
    }

    pub fn f64(&mut self) -> f64 {
        (self.next_u64() >> 11) as f64 / (1u64 << 53) as f64
    }

    /// Pick an index according to integer weights.
    pub fn weighted(&mut self, weights: &[u32]) -> usize {
        let total: u64 = weights.iter().map(|w| *w as u64).sum();
        let mut x = self.below(total.max(1));
        for (i, w) in weights.iter().enumerate() {
            if x < *w as u64 {
                return i;
            }
            x -= *w as u64;
        }
        weights.len() - 1
    }

    /// Boundary-biased u64.
    pub fn u64_biased(&mut self) -> u64 {
        match self.below(12) {
            0 => 0,
            1 => 1,
            2 => u64::MAX,
            3 => u64::MAX - 1,
            4 => (1u64 << 63) + self.below(3) - 1,
            5 => (1u64 << 32) + self.below(3) - 1,
            6 => self.below(10),
            7 => self.below(1000),
            8 => u64::MAX - self.below(1000),
            9 => 1u64 << self.below(64),
            _ => self.next_u64() >> self.below(64),
        }
    }
}

pub fn fnv1a(bytes: &[u8]) -> u64 {
    let mut h: u64 = 0xcbf2_9ce4_8422_2325;
    for b in bytes {
        h ^= *b as u64;
        h = h.wrapping_mul(0x0000_0100_0000_01B3);
    }
    h
}
