#!/bin/bash
# usage: regress_seeds.sh [seed-ids...]   Applies every stored seed to /repo in turn (git apply; quick check of the
# property it breaks; git checkout -- .) and reports whether the check still catches it.
cd /verif
ids=${@:-$(ls seeded)}
for id in $ids; do
  prop=${id:0:3}
  # (a seed made for one property may in fact break a neighbouring one: meta.json names the check that owns it)
  alt=$(python3 -c "import json,sys; print(json.load(open('/verif/seeded/$id/meta.json')).get('regress_with',''))" 2>/dev/null); [ -n "$alt" ] && prop=$alt
  if [ -n "$(git -C /repo status --short)" ]; then echo "REPO NOT CLEAN"; exit 2; fi
  git -C /repo apply /verif/seeded/$id/patch.diff || { echo "$id STALE (patch does not apply)"; continue; }
  out=$(./check $prop 2>&1); rc=$?
  git -C /repo checkout -- .
  sig=$(echo "$out" | grep -m1 "signature:" | cut -c1-110)
  case $rc in 1) echo "$id caught $sig";; 0) echo "$id MISSED";; *) echo "$id INCONCLUSIVE $(echo "$out" | grep -m1 INCONCLUSIVE | cut -c1-120)";; esac
done
